import Quanto.Tables
import Quanto.Generated
/-
Property C05 — operations on quantized tensors equal the same operations on the dequantized
values: exactly when the operation only moves data, within float rounding when it rescales,
within one step of the output scale when it re-quantizes; whenever the float program is valid the
quantized program does not raise.

`QB.PerTensor q` (Proofs/C05/Lemmas.lean; the helper lemmas live in the namespace `Quanto.C05`) is the well-formedness of a per-tensor value:
`q.axis = none`, 0-dimensional scale holding one value, data of the size announced by its shape
(`C05_perTensor_iff`).  `q.deqFn c = symDeq q.F c (q.scale.get 0)`.
-/
import Proofs.C05.Cat
import Proofs.C05.Rescale
import Proofs.C05.Alias

namespace Quanto
open C05

/-! ## A — movement operations commute with elementwise maps -/

theorem C05_perTensor_iff (q : QB) :
    q.PerTensor ↔ q.axis = none ∧ q.scale.shape = [] ∧ q.scale.data.size = 1 ∧
      q.data.data.size = prod q.data.shape :=
  ⟨fun h => ⟨h.axis, h.sshape, h.ssize, h.wf⟩, fun h => ⟨h.1, h.2.1, h.2.2.1, h.2.2.2⟩⟩

/-- every movement operation commutes with every elementwise map -/
theorem C05_move_map {α β : Type} [Inhabited α] [Inhabited β] (m : MoveOp) (t : T α) (f : α → β)
    (hwf : t.data.size = prod t.shape) : (m.apply t).map (T.map f) = m.apply (t.map f) :=
  move_map m t f hwf

theorem C05_cat_map {α β : Type} [Inhabited α] [Inhabited β] (ts : List (T α)) (f : α → β)
    (hwf : ∀ t ∈ ts, t.data.size = prod t.shape) (dim : Int) :
    (T.cat? ts dim).map (T.map f) = T.cat? (ts.map (T.map f)) dim :=
  T.cat?_map ts f hwf dim

theorem C05_stack_map {α β : Type} [Inhabited α] [Inhabited β] (ts : List (T α)) (f : α → β)
    (hwf : ∀ t ∈ ts, t.data.size = prod t.shape) (dim : Int) :
    (T.stack? ts dim).map (T.map f) = T.stack? (ts.map (T.map f)) dim :=
  T.stack?_map ts f hwf dim

theorem C05_split_map {α β : Type} [Inhabited α] [Inhabited β] (t : T α) (f : α → β)
    (hwf : t.data.size = prod t.shape) (sz : Nat) (dim : Int) :
    (t.split? sz dim).map (List.map (T.map f)) = (t.map f).split? sz dim :=
  T.split?_map t f hwf sz dim

/-- whether a movement operation raises, and the shape of its result, depend on the shape of the
input only -/
theorem C05_move_shape_only {α β : Type} [Inhabited α] [Inhabited β] (m : MoveOp) (t : T α) (t' : T β)
    (hs : t.shape = t'.shape) : (m.apply t).map T.shape = (m.apply t').map T.shape :=
  move_shape_only m t t' hs

/-- movement operations preserve well-formedness -/
theorem C05_move_wf {α : Type} [Inhabited α] (m : MoveOp) (t t' : T α)
    (hwf : t.data.size = prod t.shape) (h : m.apply t = some t') : t'.data.size = prod t'.shape :=
  move_wf m t t' hwf h

/-! ## B — per-tensor dequantization is an elementwise map -/

theorem C05_deq_per_tensor (q : QB) (hq : q.PerTensor) :
    q.deq = .ok (q.data.map fun c => symDeq q.F c (q.scale.get 0)) :=
  deq_per_tensor q hq

/-! ## T1, T2 — one movement operation -/

/-- T1: on a per-tensor value the quantized movement operation succeeds exactly when the float one
does, and its result dequantizes to the moved dequantized tensor (bit for bit). -/
theorem C05_move_commutes (q : QB) (hq : q.PerTensor) (m : MoveOp) (d : T FV) (hd : q.deq = .ok d) :
    (∀ d', m.apply d = some d' →
      ∃ r, qbMove m q = .qb r ∧ r.deq = .ok d' ∧ r.axis = none ∧ r.size = d'.shape ∧ r.PerTensor) ∧
    (m.apply d = none → qbMove m q = .fail .runtimeError) := by
  obtain ⟨h1, h2⟩ := move_commutes_core q hq m d hd
  refine ⟨fun d' h => ?_, h2⟩
  obtain ⟨r, e1, e2, e3, e4, -⟩ := h1 d' h
  exact ⟨r, e1, e3, e2.axis, e4, e2⟩

/-- T1 (per-axis): the implementation dequantizes, then moves. -/
theorem C05_move_per_axis (q : QB) (hq : q.axis ≠ none) (m : MoveOp) (d : T FV) (hd : q.deq = .ok d) :
    qbMove m q = optToVal q.F (m.apply d) := by
  unfold qbMove
  have : q.isPerTensor = false := by
    unfold QB.isPerTensor
    cases h : q.axis with
    | none => exact absurd h hq
    | some b => rfl
  rw [this, hd]
  rfl

/-- T2: when the float program is valid the quantized one does not raise. -/
theorem C05_no_spurious_raise_move (q : QB) (hq : q.PerTensor) (m : MoveOp) (d d' : T FV)
    (hd : q.deq = .ok d) (h : m.apply d = some d') :
    (match qbMove m q with | .fail _ => False | _ => True) := by
  obtain ⟨r, hr, -⟩ := (C05_move_commutes q hq m d hd).1 d' h
  rw [hr]
  trivial

/-- T2 (per-axis). -/
theorem C05_no_spurious_raise_move_per_axis (q : QB) (hq : q.axis ≠ none) (m : MoveOp) (d d' : T FV)
    (hd : q.deq = .ok d) (h : m.apply d = some d') :
    (match qbMove m q with | .fail _ => False | _ => True) := by
  rw [C05_move_per_axis q hq m d hd, h]
  trivial

/-! ## T10 — programs of movement operations -/

/-- T10: a program of movement operations of any length, run on a per-tensor quantized value,
succeeds whenever the float program does, and its result dequantizes to the float result. -/
theorem C05_programs_move (prog : List MoveOp) (q : QB) (hq : q.PerTensor) (d d' : T FV)
    (hd : q.deq = .ok d) (h : runF prog d = some d') :
    ∃ r, runQ prog (.qb q) = .qb r ∧ r.deq = .ok d' ∧ r.PerTensor ∧
      (q.size = q.data.shape → r.size = d'.shape) := by
  obtain ⟨r, h1, h2, h3, h4⟩ := programs_move_core prog q hq d d' hd h
  exact ⟨r, h1, h3, h2, h4⟩

/-- `aten.t` on a per-tensor matrix: the codes are transposed, the result dequantizes to the
transposed dequantized tensor. -/
theorem C05_t_commutes (q : QB) (hq : q.PerTensor) (d0 d1 : Nat) (hsz : q.size = [d0, d1])
    (d d' : T FV) (hd : q.deq = .ok d) (h : d.transpose? 0 1 = some d') :
    ∃ r, qbT q = .qb r ∧ r.deq = .ok d' ∧ r.size = [d1, d0] := by
  rw [deq_per_tensor q hq] at hd
  injection hd with hd
  subst hd
  rw [← T.transpose?_map q.data q.deqFn hq.wf] at h
  cases he : q.data.transpose? 0 1 with
  | none => rw [he] at h; cases h
  | some e =>
    rw [he] at h
    simp only [Option.map_some, Option.some.injEq] at h
    subst h
    have hr : QB.PerTensor { q with size := [d1, d0], data := e } :=
      ⟨hq.axis, hq.sshape, hq.ssize, move_wf (.transpose 0 1) q.data e hq.wf he⟩
    refine ⟨{ q with size := [d1, d0], data := e }, ?_, deq_per_tensor _ hr, rfl⟩
    unfold qbT
    rw [hsz]
    simp only [he, hq.axis]

/-- `aten.t` on a tensor with fewer than two dimensions is the tensor itself, as for a
torch.Tensor (as repaired: the original implementation raised ValueError there). -/
theorem C05_t_below_two_dims (q : QB) (h : q.size.length < 2) : qbT q = .qb q := by
  unfold qbT
  match hsz : q.size, h with
  | [], _ => rfl
  | [_], _ => rfl
  | _ :: _ :: _, h => exact absurd h (by simp)

/-- `detach` / `clone` keep the value. -/
theorem C05_detach_id (q : QB) : qbDetach q = .qb q ∧ qbClone q = .qb q := ⟨rfl, rfl⟩

/-! ## T3 — cat, stack, split -/

/-- T3 (cat): two per-tensor int8 tensors with equal scales are concatenated on their codes; the
result dequantizes to the concatenation of the dequantized tensors, and fails exactly when the
float `cat` fails.  (`a.F = b.F`: `torch.equal` compares values, the model keeps the dtype of `a`.) -/
theorem C05_cat_commutes (a b : QB) (ha : a.PerTensor) (hb : b.PerTensor) (hF : a.F = b.F)
    (hQa : a.Q = .qint8) (hQb : b.Q = .qint8) (hs : scaleEqual a.scale b.scale = true)
    (da db : T FV) (hda : a.deq = .ok da) (hdb : b.deq = .ok db) (dim : Int) :
    (∀ d', T.cat? [da, db] dim = some d' →
      ∃ r, qbCat [.qb a, .qb b] dim = .qb r ∧ r.deq = .ok d' ∧ r.size = d'.shape) ∧
    (T.cat? [da, db] dim = none → qbCat [.qb a, .qb b] dim = .fail .runtimeError) := by
  obtain ⟨h1, h2⟩ := cat_commutes_core a b ha hb hF hQa hQb hs da db hda hdb dim
  refine ⟨fun d' h => ?_, h2⟩
  obtain ⟨r, e1, -, e3, e4⟩ := h1 d' h
  exact ⟨r, e1, e3, e4⟩

/-- T3 (cat, fallback): otherwise the implementation dequantizes both, then concatenates. -/
theorem C05_cat_fallback (a b : QB) (da db : T FV) (hda : a.deq = .ok da) (hdb : b.deq = .ok db)
    (hp : (catQuantizedPath a b && !a.Q.isFloat) = false) (dim : Int) :
    qbCat [.qb a, .qb b] dim = optToVal a.F (T.cat? [da, db] dim) :=
  cat_fallback_core a b da db hda hdb hp dim

/-- T3 (stack): same statement for `stack` (any 8-bit qtype). -/
theorem C05_stack_commutes (fixed : Bool) (a b : QB) (ha : a.PerTensor) (hb : b.PerTensor)
    (hF : a.F = b.F) (hQ : a.Q = b.Q) (hs : scaleEqual a.scale b.scale = true)
    (da db : T FV) (hda : a.deq = .ok da) (hdb : b.deq = .ok db) (dim : Int) :
    (∀ d', T.stack? [da, db] dim = some d' →
      ∃ r, qbStack fixed [.qb a, .qb b] dim = .qb r ∧ r.deq = .ok d' ∧ r.size = d'.shape) ∧
    (T.stack? [da, db] dim = none → qbStack fixed [.qb a, .qb b] dim = .fail .runtimeError) := by
  obtain ⟨h1, h2⟩ := stack_commutes_core fixed a b ha hb hF hQ hs da db hda hdb dim
  refine ⟨fun d' h => ?_, h2⟩
  obtain ⟨r, e1, -, e3, e4⟩ := h1 d' h
  exact ⟨r, e1, e3, e4⟩

/-- T3 (stack, repaired fallback): dequantize, then stack. -/
theorem C05_stack_fallback (a b : QB) (da db : T FV) (hda : a.deq = .ok da) (hdb : b.deq = .ok db)
    (hp : catQuantizedPath a b = false) (dim : Int) :
    qbStack true [.qb a, .qb b] dim = optToVal a.F (T.stack? [da, db] dim) :=
  stack_fallback_core a b da db hda hdb hp dim

/-- T3 (split, repaired size): the chunks of a per-tensor value dequantize to the chunks of the
dequantized tensor, each reports the shape of its own data, and `split` fails exactly when the
float `split` fails. -/
theorem C05_split_commutes (q : QB) (hq : q.PerTensor) (d : T FV) (hd : q.deq = .ok d) (sz : Nat)
    (dim : Int) :
    (∀ ds, d.split? sz dim = some ds →
      ∃ rs : List QB, qbSplit true q sz dim = .listV (rs.map Val.qb) ∧
        rs.map QB.deq = ds.map Except.ok ∧ rs.map QB.size = ds.map T.shape) ∧
    (d.split? sz dim = none → qbSplit true q sz dim = .fail .runtimeError) := by
  obtain ⟨h1, h2⟩ := split_commutes_core q hq d hd sz dim
  refine ⟨fun ds h => ?_, h2⟩
  obtain ⟨rs, e1, e2, e3, -⟩ := h1 ds h
  exact ⟨rs, e1, e2, e3⟩

/-- defect (repaired): the original fallback of `stack` raised `TypeError` — for every list that
does not take the quantized path, e.g. any three quantized tensors. -/
theorem C05_counterexample_stack_unfixed (a b c : QB) (dim : Int) :
    qbStack false [.qb a, .qb b, .qb c] dim = .fail .typeError := rfl

/-- defect (repaired), two tensors with different scales. -/
theorem C05_counterexample_stack_unfixed_pair (a b : QB) (hp : catQuantizedPath a b = false)
    (dim : Int) : qbStack false [.qb a, .qb b] dim = .fail .typeError := by
  simp only [qbStack]
  rw [hp]
  rfl

/-- defect (repaired): with the original code every chunk of `split` reports the size of the
un-split input. -/
theorem C05_counterexample_split_unfixed :
    ∃ r1 r2, qbSplit false
        ⟨f16, .qint8, none, [4], ⟨[4], #[.fin 1, .fin 2, .fin 3, .fin 4]⟩, ⟨[], #[.fin (1 / 4)]⟩⟩ 2 0
        = .listV [.qb r1, .qb r2] ∧
      r1.size = [4] ∧ r1.data.shape = [2] ∧ r2.size = [4] ∧ r2.data.shape = [2] :=
  ⟨_, _, rfl, rfl, rfl, rfl, rfl⟩

/-! ## T4 — neg -/

/-- T4: negating int8 codes different from -128 commutes with dequantization. -/
theorem C05_neg_commutes (q : QB) (hq : q.PerTensor) (hF : WorkFmt q.F) (hQ : q.Q = .qint8)
    (hc : ∀ v ∈ q.data.data, ∃ c : Int, v = .fin c ∧ -127 ≤ c ∧ c ≤ 127)
    (d : T FV) (hd : q.deq = .ok d) :
    ∃ r, qbNeg q = .qb r ∧ r.deq = .ok (d.map FV.neg) := by
  rw [deq_per_tensor q hq] at hd
  injection hd with hd
  subst hd
  have hfl : q.Q.isFloat = false := by rw [hQ]; rfl
  have hr : QB.PerTensor { q with data := q.data.map negCode } :=
    ⟨hq.axis, hq.sshape, hq.ssize, by rw [T.size_map]; exact hq.wf⟩
  refine ⟨{ q with data := q.data.map negCode }, by simp [qbNeg, hfl], ?_⟩
  rw [deq_per_tensor _ hr]
  congr 1
  show (q.data.map negCode).map _ = _
  rw [T.map_map, T.map_map]
  apply T.map_congr
  intro v hv
  obtain ⟨c, rfl, h1, h2⟩ := hc v hv
  simp only [QB.deqFn, symDeq]
  rw [negCode_int c h1 h2]
  exact mul_neg_right q.F hF _ _

/-- recorded finding: the code -128 wraps around — with scale 1/128 (float32) it dequantizes
to -1, and so does its "negation", whereas the float program gives +1. -/
theorem C05_counterexample_neg_minus_128 :
    negCode (.fin (-128)) = .fin (-128) ∧
    symDeq f32 (.fin (-128)) (.fin (1 / 128)) = .fin (-1) ∧
    symDeq f32 (negCode (.fin (-128))) (.fin (1 / 128)) = .fin (-1) ∧
    FV.neg (symDeq f32 (.fin (-128)) (.fin (1 / 128))) = .fin 1 := by
  decide +kernel

/-! ## T5 — relu -/

/-- the float8 branch of `relu` is the float `relu` of the dequantized tensor (by definition) -/
theorem C05_relu_float8_fallback (q : QB) (hQ : q.Q.isFloat = true) (d : T FV) (hd : q.deq = .ok d) :
    qbRelu q = .plain q.F (d.map reluV) := by
  unfold qbRelu
  rw [if_pos hQ, hd]
  rfl

/-- T5: `relu` on int8 codes commutes with dequantization when the scale is positive. -/
theorem C05_relu_commutes (q : QB) (hq : q.PerTensor) (hF : WorkFmt q.F) (hQ : q.Q = .qint8)
    (s : Rat) (hs : q.scale.get 0 = .fin s) (hpos : 0 < s)
    (hc : ∀ v ∈ q.data.data, ∃ c : Rat, v = .fin c) (d : T FV) (hd : q.deq = .ok d) :
    ∃ r, qbRelu q = .qb r ∧ r.deq = .ok (d.map reluV) := by
  rw [deq_per_tensor q hq] at hd
  injection hd with hd
  subst hd
  have hfl : q.Q.isFloat = false := by rw [hQ]; rfl
  have hr : QB.PerTensor { q with data := q.data.map reluCode } :=
    ⟨hq.axis, hq.sshape, hq.ssize, by rw [T.size_map]; exact hq.wf⟩
  refine ⟨{ q with data := q.data.map reluCode }, by simp [qbRelu, hfl], ?_⟩
  rw [deq_per_tensor _ hr]
  congr 1
  show (q.data.map reluCode).map _ = _
  rw [T.map_map, T.map_map]
  apply T.map_congr
  intro v hv
  obtain ⟨c, rfl⟩ := hc v hv
  simp only [QB.deqFn, symDeq, hs]
  exact relu_elem q.F hF s hpos c

/-- with a negative scale `relu` on the codes is wrong: scale -1/4, code -2 dequantizes to 1/2
(kept by the float `relu`) but the code is zeroed; code 2 dequantizes to -1/2 (zeroed by the float
`relu`) but the code is kept. -/
theorem C05_counterexample_relu_negative_scale :
    symDeq f16 (reluCode (.fin (-2))) (.fin (-1 / 4)) = .fin 0 ∧
    reluV (symDeq f16 (.fin (-2)) (.fin (-1 / 4))) = .fin (1 / 2) ∧
    symDeq f16 (reluCode (.fin 2)) (.fin (-1 / 4)) = .fin (-1 / 2) ∧
    reluV (symDeq f16 (.fin 2) (.fin (-1 / 4))) = .fin 0 := by
  decide +kernel

/-! ## T6 — multiplication / division by a scalar -/

/-- tensor level: `mul` by a scalar rescales the scale; the result dequantizes elementwise with
the rescaled scale, while the float program multiplies each dequantized value. -/
theorem C05_mul_scalar_deq (q : QB) (hq : q.PerTensor) (k : Rat) (d : T FV) (hd : q.deq = .ok d) :
    ∃ r, qbMulScalar q k = .qb r ∧
      r.deq = .ok (q.data.map fun c => q.F.mul (q.F.mul (.fin k) (q.scale.get 0)) c) ∧
      d.map (fun v => q.F.mul (.fin k) v) =
        q.data.map fun c => q.F.mul (.fin k) (q.F.mul (q.scale.get 0) c) := by
  rw [deq_per_tensor q hq] at hd
  injection hd with hd
  subst hd
  have hr : QB.PerTensor { q with scale := q.scale.map fun s => q.F.mul (.fin k) s } :=
    ⟨hq.axis, hq.sshape, by rw [T.size_map]; exact hq.ssize, hq.wf⟩
  refine ⟨_, rfl, ?_, ?_⟩
  · rw [deq_per_tensor _ hr]
    congr 2
    funext c
    simp only [QB.deqFn, symDeq]
    rw [T.get_map _ _ _ (by rw [hq.ssize]; exact Nat.zero_lt_one)]
  · rw [T.map_map]
    rfl

theorem C05_div_scalar_deq (q : QB) (hq : q.PerTensor) (k : Rat) (d : T FV) (hd : q.deq = .ok d) :
    ∃ r, qbDivScalar q k = .qb r ∧
      r.deq = .ok (q.data.map fun c => q.F.mul (q.F.div (q.scale.get 0) (.fin k)) c) ∧
      d.map (fun v => q.F.div v (.fin k)) =
        q.data.map fun c => q.F.div (q.F.mul (q.scale.get 0) c) (.fin k) := by
  rw [deq_per_tensor q hq] at hd
  injection hd with hd
  subst hd
  have hr : QB.PerTensor { q with scale := q.scale.map fun s => q.F.div s (.fin k) } :=
    ⟨hq.axis, hq.sshape, by rw [T.size_map]; exact hq.ssize, hq.wf⟩
  refine ⟨_, rfl, ?_, ?_⟩
  · rw [deq_per_tensor _ hr]
    congr 2
    funext c
    simp only [QB.deqFn, symDeq]
    rw [T.get_map _ _ _ (by rw [hq.ssize]; exact Nat.zero_lt_one)]
  · rw [T.map_map]
    rfl

/-- T6 (int8 codes): for a scale representable in the working format and an integer code with
`|c| ≤ qmax ≤ 500`, the two results satisfy the executable rescaling relation `specRescale`. -/
theorem C05_mul_scalar_rescale (F : Fmt) (hF : WorkFmt F) (qm k s : Rat) (hs : F.Rep s) (n : Int)
    (hn : |(n : Rat)| ≤ qm) (hqm : qm ≤ 500) (yq rq : Rat)
    (hy : F.mul (F.mul (.fin k) (.fin s)) (.fin n) = .fin yq)
    (hr : F.mul (.fin k) (F.mul (.fin s) (.fin n)) = .fin rq) :
    specRescale F qm k (.fin yq) (.fin rq) = true := by
  apply specRescale_of_le
  have h := rescale_mul_int F hF k s hs n yq rq hy hr
  have hK : 0 ≤ |k| + (if |k| = 0 then 0 else 1 / |k|) := by
    have := abs_nonneg k
    split_ifs
    · linarith
    · positivity
  have ha := int_allowance F.u F.eta qm n _ (u_eta_work F hF).1 F.eta_nonneg hn hqm hK
  simp only [mul_zero, zero_add] at h
  linarith

theorem C05_div_scalar_rescale (F : Fmt) (hF : WorkFmt F) (qm k s : Rat) (hk : k ≠ 0) (hs : F.Rep s)
    (n : Int) (hn : |(n : Rat)| ≤ qm) (hqm : qm ≤ 500) (yq rq : Rat)
    (hy : F.mul (F.div (.fin s) (.fin k)) (.fin n) = .fin yq)
    (hr : F.div (F.mul (.fin s) (.fin n)) (.fin k) = .fin rq) :
    specRescale F qm k (.fin yq) (.fin rq) = true := by
  apply specRescale_of_le
  have h := rescale_div_int F hF k s hk hs n yq rq hy hr
  have hK : 0 ≤ |k| + (if |k| = 0 then 0 else 1 / |k|) := by
    have := abs_nonneg k
    split_ifs
    · linarith
    · positivity
  have ha := int_allowance F.u F.eta qm n _ (u_eta_work F hF).1 F.eta_nonneg hn hqm hK
  simp only [mul_zero, zero_add] at h
  linarith

/-- T6 (any finite code, e.g. float8): the same relation with the constants that the generic
rounding analysis yields: `5u` relative, `(251/250·qmax + 101/50 + 41/40·|k|)·η` absolute. -/
theorem C05_mul_scalar_rescale_partial (F : Fmt) (hF : WorkFmt F) (qm k s c : Rat) (hc : |c| ≤ qm)
    (yq rq : Rat) (hy : F.mul (F.mul (.fin k) (.fin s)) (.fin c) = .fin yq)
    (hr : F.mul (.fin k) (F.mul (.fin s) (.fin c)) = .fin rq) :
    |yq - rq| ≤ 5 * F.u * |rq| + (251 / 250 * qm + 101 / 50 + 41 / 40 * |k|) * F.eta := by
  have h := rescale_mul_general F hF k s c yq rq hy hr
  obtain ⟨hu, -⟩ := u_eta_work F hF
  have hu0 := F.u_nonneg
  have he := F.eta_nonneg
  have hk := abs_nonneg k
  have hc0 := abs_nonneg c
  have h1 : (1 + F.u) * |c| ≤ 251 / 250 * qm := by nlinarith
  have h2 : (1 + 5 * F.u) * ((1 + F.u) * |k|) ≤ 41 / 40 * |k| := by
    have : (1 + 5 * F.u) * (1 + F.u) ≤ 41 / 40 := by nlinarith
    nlinarith
  have h3 := mul_le_mul_of_nonneg_right h1 he
  have h4 := mul_le_mul_of_nonneg_right h2 he
  nlinarith

theorem C05_div_scalar_rescale_partial (F : Fmt) (hF : WorkFmt F) (qm k s c : Rat) (hk : k ≠ 0)
    (hc : |c| ≤ qm) (yq rq : Rat)
    (hy : F.mul (F.div (.fin s) (.fin k)) (.fin c) = .fin yq)
    (hr : F.div (F.mul (.fin s) (.fin c)) (.fin k) = .fin rq) :
    |yq - rq| ≤ 5 * F.u * |rq| + (251 / 250 * qm + 101 / 50 + 41 / 40 * (1 / |k|)) * F.eta := by
  have h := rescale_div_general F hF k s c yq rq hk hy hr
  rw [abs_inv, ← one_div] at h
  obtain ⟨hu, -⟩ := u_eta_work F hF
  have hu0 := F.u_nonneg
  have he := F.eta_nonneg
  have hk' : 0 ≤ 1 / |k| := by positivity
  have hc0 := abs_nonneg c
  have h1 : (1 + F.u) * |c| ≤ 251 / 250 * qm := by nlinarith
  have h2 : (1 + 5 * F.u) * ((1 + F.u) * (1 / |k|)) ≤ 41 / 40 * (1 / |k|) := by
    have : (1 + 5 * F.u) * (1 + F.u) ≤ 41 / 40 := by nlinarith
    nlinarith
  have h3 := mul_le_mul_of_nonneg_right h1 he
  have h4 := mul_le_mul_of_nonneg_right h2 he
  nlinarith

/-! ## T7 — re-quantizing operations (softmax, where) -/

theorem C05_softmax_is_requant (q : QB) (oracle : T FV) :
    qbSoftmax q oracle = requant q.F q.Q oracle (softmaxScale q.F q.Q) := rfl

theorem C05_where_is_requant (q : QB) (hq : q.axis = none) (oracle : T FV) :
    qbWhere q oracle = requant q.F q.Q oracle (q.scale.get 0) := by
  unfold qbWhere; rw [hq]

/-- T7: `requant` is the symmetric quantizer applied elementwise with the scalar scale, and its
result is a well-formed per-tensor value that dequantizes elementwise. -/
theorem C05_requant_is_symmetric_quantization (F : Fmt) (Q : QT) (x : T FV) (scale : FV) :
    ∃ r y, requant F Q x scale = .qb r ∧ r.PerTensor ∧ r.F = F ∧ r.Q = Q ∧ r.size = x.shape ∧
      r.scale.get 0 = scale ∧ r.data.shape = x.shape ∧ r.deq = .ok y ∧ y.shape = x.shape ∧
      ∀ n, n < prod x.shape →
        r.data.get n = symCode F Q (x.get n) scale ∧
        y.get n = symDeq F (symCode F Q (x.get n) scale) scale := by
  obtain ⟨r, h1, h2, h3, h4, h5, h6, h7, h8, h9⟩ := requant_eq F Q x scale
  have hr : r.PerTensor := ⟨h4, by rw [h6], by rw [h6]; rfl, by rw [h8, h7]⟩
  have hs : r.scale.get 0 = scale := by rw [h6]; rfl
  refine ⟨r, _, h1, hr, h2, h3, h5, hs, h7, deq_per_tensor r hr, h7, ?_⟩
  intro n hn
  refine ⟨h9 n hn, ?_⟩
  rw [T.get_map _ _ _ (by rw [h8]; exact hn), h9 n hn]
  simp only [QB.deqFn, h2, hs]

/-- T7 (corollary of C01): every dequantized element of a re-quantized result is, up to the
rounding allowance `epsC01`, at least as close to the float result as any point of the output
grid `s·V_Q`. -/
theorem C05_requant_nearest (F : Fmt) (hF : WorkFmt F) (Q : QT) (x : T FV) (s : Rat) (hs : 0 < s)
    (r : QB) (hr : requant F Q x (.fin s) = .qb r) (y : T FV) (hy : r.deq = .ok y)
    (n : Nat) (hn : n < prod x.shape) (xq c yq : Rat) (hx : x.get n = .fin xq)
    (hc : r.data.get n = .fin c) (hyq : y.get n = .fin yq) :
    ∀ v, Q.InGrid v → |yq - xq| ≤ |s * v - xq| + epsC01 F xq s c := by
  obtain ⟨r', y', h1, -, -, -, -, -, -, h8, -, h10⟩ :=
    C05_requant_is_symmetric_quantization F Q x (.fin s)
  rw [hr] at h1
  injection h1 with h1
  subst h1
  rw [hy] at h8
  injection h8 with h8
  subst h8
  obtain ⟨e1, e2⟩ := h10 n hn
  rw [hx] at e1 e2
  rw [hc] at e1
  rw [← e1, hyq] at e2
  exact C01_nearest F hF Q xq s hs c yq e1.symm e2.symm

/-- T7 (int8, "within one step of the output scale"): when `x / s` lies in the int8 range, the
dequantized value is within half a step `s / 2` of `x`, up to the rounding allowance. -/
theorem C05_requant_within_half_step_int8 (F : Fmt) (hF : WorkFmt F) (xq s : Rat) (hs : 0 < s)
    (hlo : -128 ≤ xq / s) (hhi : xq / s ≤ 127) (c yq : Rat)
    (hc : symCode F .qint8 (.fin xq) (.fin s) = .fin c) (hy : symDeq F (.fin c) (.fin s) = .fin yq) :
    |yq - xq| ≤ s / 2 + epsC01 F xq s c := by
  have h1 : -128 ≤ rhe (xq / s) := by
    have := rhe_mono (a := ((-128 : Int) : Rat)) (b := xq / s) (by push_cast; exact hlo)
    rwa [rhe_int] at this
  have h2 : rhe (xq / s) ≤ 127 := by
    have := rhe_mono (a := xq / s) (b := ((127 : Int) : Rat)) (by push_cast; exact hhi)
    rwa [rhe_int] at this
  have hn := C01_nearest F hF .qint8 xq s hs c yq hc hy (rhe (xq / s)) ⟨_, rfl, h1, h2⟩
  have he := rhe_err (xq / s)
  have e : s * (rhe (xq / s) : Rat) - xq = s * ((rhe (xq / s) : Rat) - xq / s) := by
    field_simp
  rw [e, abs_mul, abs_of_pos hs] at hn
  have := mul_le_mul_of_nonneg_left he hs.le
  linarith

/-! ## T8 — integer matrix product -/

/-- T8: the integer GEMM computes the exact sums of products of the codes. -/
theorem C05_int_mm_exact (a b : T FV) (n m p : Nat) (ha : a.shape = [n, m]) (hb : b.shape = [m, p])
    (ca cb : Nat → Int) (hca : ∀ idx, idx < n * m → a.get idx = .fin (ca idx))
    (hcb : ∀ idx, idx < m * p → b.get idx = .fin (cb idx)) :
    ∃ o, intMm a b = some o ∧ o.shape = [n, p] ∧
      ∀ i j, i < n → j < p →
        o.get (i * p + j) = ((List.range m).map fun k => ca (i * m + k) * cb (k * p + j)).sum := by
  obtain ⟨o, h1, h2, -, h4⟩ := intMm_eq a b n m p ha hb ca cb hca hcb
  exact ⟨o, h1, h2, h4⟩

/-- T8: with int8 codes and an inner dimension of at most 131071 the sums fit in int32. -/
theorem C05_int32_no_overflow (a b : T FV) (n m p : Nat) (ha : a.shape = [n, m])
    (hb : b.shape = [m, p]) (ca cb : Nat → Int)
    (hca : ∀ idx, idx < n * m → a.get idx = .fin (ca idx))
    (hcb : ∀ idx, idx < m * p → b.get idx = .fin (cb idx))
    (hba : ∀ idx, -128 ≤ ca idx ∧ ca idx ≤ 127) (hbb : ∀ idx, -128 ≤ cb idx ∧ cb idx ≤ 127)
    (hm : m ≤ 131071) :
    ∃ o, intMm a b = some o ∧ ∀ i j, i < n → j < p → |o.get (i * p + j)| < 2 ^ 31 := by
  obtain ⟨o, h1, -, h3⟩ := C05_int_mm_exact a b n m p ha hb ca cb hca hcb
  refine ⟨o, h1, fun i j hi hj => ?_⟩
  rw [h3 i j hi hj]
  have hb := abs_sum_le (fun k => ca (i * m + k) * cb (k * p + j)) (List.range m) 16384 (by
    intro k _
    have h1 := hba (i * m + k)
    have h2 := hbb (k * p + j)
    rw [abs_mul]
    have e1 : |ca (i * m + k)| ≤ 128 := abs_le.2 ⟨by omega, by omega⟩
    have e2 : |cb (k * p + j)| ≤ 128 := abs_le.2 ⟨by omega, by omega⟩
    calc |ca (i * m + k)| * |cb (k * p + j)| ≤ 128 * 128 :=
          mul_le_mul e1 e2 (abs_nonneg _) (by norm_num)
      _ = 16384 := by norm_num)
  rw [List.length_range] at hb
  have : (m : Int) ≤ 131071 := by exact_mod_cast hm
  omega

/-! ## T9 — comparison -/

/-- T9: with a positive scale, comparing codes is comparing the exact products. -/
theorem C05_lt_exact (s c1 c2 : Rat) (hs : 0 < s) : c1 < c2 ↔ s * c1 < s * c2 :=
  (mul_lt_mul_iff_right₀ hs).symm

/-- T9: rounding is monotone — if `c1 ≤ c2` the float comparison of the dequantized values never
says `deq c2 < deq c1`. -/
theorem C05_lt_float_monotone (F : Fmt) (hF : WorkFmt F) (s : Rat) (hs : 0 < s) (c1 c2 y1 y2 : Rat)
    (h : c1 ≤ c2) (h1 : F.mul (.fin s) (.fin c1) = .fin y1) (h2 : F.mul (.fin s) (.fin c2) = .fin y2) :
    ¬ y2 < y1 := by
  have := lt_float_monotone_core F hF s hs c1 c2 h
  simp only [symDeq, h1, h2, ltCodes, decide_eq_false_iff_not] at this
  exact this

/-- T9 at the level of the comparison used by `qbLt` (infinite results included). -/
theorem C05_lt_codes_monotone (F : Fmt) (hF : WorkFmt F) (s : Rat) (hs : 0 < s) (c1 c2 : Rat)
    (h : c1 ≤ c2) : ltCodes (symDeq F (.fin c2) (.fin s)) (symDeq F (.fin c1) (.fin s)) = false :=
  lt_float_monotone_core F hF s hs c1 c2 h

/-! ## non-vacuity: the hypotheses are satisfiable on a concrete value
`exQ` : float16 / qint8, codes `[[1, -2, 3], [4, 5, -6]]`, scale `1/4`. -/

/-- T1 with a `permute`: the float program is valid, the quantized one returns a `[3, 2]` value
that dequantizes to the permuted tensor. -/
example : ∃ d d' r, exQ.deq = .ok d ∧ (MoveOp.permute [1, 0]).apply d = some d' ∧
    qbMove (.permute [1, 0]) exQ = .qb r ∧ r.deq = .ok d' ∧ r.size = [3, 2] := by
  have hd := deq_per_tensor exQ exQ_perTensor
  obtain ⟨r, h1, h2, -, h4, -⟩ :=
    (C05_move_commutes exQ exQ_perTensor (.permute [1, 0]) _ hd).1 _ rfl
  exact ⟨_, _, r, hd, rfl, h1, h2, h4⟩

/-- T1 with a `slice` (columns 0 and 1). -/
example : ∃ d d' r, exQ.deq = .ok d ∧ (MoveOp.slice 1 0 2 1).apply d = some d' ∧
    qbMove (.slice 1 0 2 1) exQ = .qb r ∧ r.deq = .ok d' ∧ r.size = [2, 2] := by
  have hd := deq_per_tensor exQ exQ_perTensor
  obtain ⟨r, h1, h2, -, h4, -⟩ :=
    (C05_move_commutes exQ exQ_perTensor (.slice 1 0 2 1) _ hd).1 _ rfl
  exact ⟨_, _, r, hd, rfl, h1, h2, h4⟩

/-- T1, failing side: an invalid permutation fails in both programs. -/
example : ∃ d, exQ.deq = .ok d ∧ (MoveOp.permute [0, 0]).apply d = none ∧
    qbMove (.permute [0, 0]) exQ = .fail .runtimeError := by
  have hd := deq_per_tensor exQ exQ_perTensor
  exact ⟨_, hd, rfl, (C05_move_commutes exQ exQ_perTensor (.permute [0, 0]) _ hd).2 rfl⟩

/-- T10 with a three-step program. -/
example : ∃ d d' r, exQ.deq = .ok d ∧
    runF [.transpose 0 1, .unsqueeze 0, .select 1 (-1)] d = some d' ∧
    runQ [.transpose 0 1, .unsqueeze 0, .select 1 (-1)] (.qb exQ) = .qb r ∧ r.deq = .ok d' ∧
    r.size = [1, 2] := by
  have hd := deq_per_tensor exQ exQ_perTensor
  obtain ⟨r, h1, h2, -, h4⟩ := C05_programs_move
    [.transpose 0 1, .unsqueeze 0, .select 1 (-1)] exQ exQ_perTensor _ _ hd rfl
  exact ⟨_, _, r, hd, rfl, h1, h2, h4 rfl⟩

/-- T3 with a `cat` of the value with itself along dim 0. -/
example : ∃ d d' r, exQ.deq = .ok d ∧ T.cat? [d, d] 0 = some d' ∧
    qbCat [.qb exQ, .qb exQ] 0 = .qb r ∧ r.deq = .ok d' ∧ r.size = [4, 3] := by
  have hd := deq_per_tensor exQ exQ_perTensor
  obtain ⟨r, h1, h2, h3⟩ :=
    (C05_cat_commutes exQ exQ exQ_perTensor exQ_perTensor rfl rfl rfl (by simp [scaleEqual])
      _ _ hd hd 0).1 _ rfl
  exact ⟨_, _, r, hd, rfl, h1, h2, h3⟩

/-- T3 with a `split` in chunks of 2 columns (last chunk smaller). -/
example : ∃ d ds, ∃ rs : List QB, exQ.deq = .ok d ∧ d.split? 2 1 = some ds ∧ ds.length = 2 ∧
    qbSplit true exQ 2 1 = .listV (rs.map Val.qb) ∧ rs.map QB.deq = ds.map Except.ok ∧
    rs.map QB.size = [[2, 2], [2, 1]] := by
  have hd := deq_per_tensor exQ exQ_perTensor
  obtain ⟨rs, h1, h2, h3⟩ := (C05_split_commutes exQ exQ_perTensor _ hd 2 1).1 _ rfl
  exact ⟨_, _, rs, hd, rfl, rfl, h1, h2, h3.trans rfl⟩

/-- T4 / T5 on `exQ`. -/
example : ∃ d r, exQ.deq = .ok d ∧ qbNeg exQ = .qb r ∧ r.deq = .ok (d.map FV.neg) := by
  have hd := deq_per_tensor exQ exQ_perTensor
  obtain ⟨r, h1, h2⟩ := C05_neg_commutes exQ exQ_perTensor (by simp [WorkFmt, exQ]) rfl
    (by
      intro v hv
      simp only [exQ, Array.mem_def, List.mem_cons, List.not_mem_nil, or_false] at hv
      rcases hv with rfl | rfl | rfl | rfl | rfl | rfl
      · exact ⟨1, by norm_num, by omega, by omega⟩
      · exact ⟨-2, by norm_num, by omega, by omega⟩
      · exact ⟨3, by norm_num, by omega, by omega⟩
      · exact ⟨4, by norm_num, by omega, by omega⟩
      · exact ⟨5, by norm_num, by omega, by omega⟩
      · exact ⟨-6, by norm_num, by omega, by omega⟩) _ hd
  exact ⟨_, r, hd, h1, h2⟩

example : ∃ d r, exQ.deq = .ok d ∧ qbRelu exQ = .qb r ∧ r.deq = .ok (d.map reluV) := by
  have hd := deq_per_tensor exQ exQ_perTensor
  obtain ⟨r, h1, h2⟩ := C05_relu_commutes exQ exQ_perTensor (by simp [WorkFmt, exQ]) rfl (1 / 4) rfl
    (by norm_num)
    (by
      intro v hv
      simp only [exQ, Array.mem_def, List.mem_cons, List.not_mem_nil, or_false] at hv
      rcases hv with rfl | rfl | rfl | rfl | rfl | rfl <;> exact ⟨_, rfl⟩) _ hd
  exact ⟨_, r, hd, h1, h2⟩

/-- T6 at float16, scale 819/8192 (= float16(0.1)), code 7, `k = 3`: the two results differ
(537/256 vs 1075/512) and satisfy the relation. -/
example : specRescale f16 127 3 (.fin (537 / 256)) (.fin (1075 / 512)) = true :=
  C05_mul_scalar_rescale f16 (by simp [WorkFmt]) 127 3 (819 / 8192)
    (repB_sound f16 _ (by decide +kernel)) 7 (by norm_num) (by norm_num) _ _
    (by decide +kernel) (by decide +kernel)

/-- T6, division by 3. -/
example : specRescale f16 127 3 (.fin (1911 / 8192)) (.fin (1911 / 8192)) = true :=
  C05_div_scalar_rescale f16 (by simp [WorkFmt]) 127 3 (819 / 8192) (by norm_num)
    (repB_sound f16 _ (by decide +kernel)) 7 (by norm_num) (by norm_num) _ _
    (by decide +kernel) (by decide +kernel)

/-- T7: softmax output 1/3 at float16 / qint8 (scale 129/16384, code 42, dequantized 677/2048). -/
example : |(677 / 2048 : Rat) - 1 / 3| ≤ (129 / 16384 : Rat) / 2 + epsC01 f16 (1 / 3) (129 / 16384) 42 :=
  C05_requant_within_half_step_int8 f16 (by simp [WorkFmt]) (1 / 3) (129 / 16384) (by norm_num)
    (by norm_num) (by norm_num) 42 (677 / 2048) (by decide +kernel) (by decide +kernel)


/-! ## G — in-place writes and storage shared between tensors -/

/-- the operations of the aliasing programs, as the harness names them -/
def aliasOps : List String :=
  ["clone", "contiguous-clone", "to-copy", "detach", "t", "transpose", "unsqueeze", "view-flat",
   "expand-as-is", "neg", "relu", "mul-scalar", "cat-with-itself", "stack-with-itself"]

/-- T8: `copy_` into `a` leaves every tensor that shares no cell with `a` unchanged (and, by
symmetry of the statement, `copy_` into such a tensor leaves `a` unchanged). -/
theorem C05_copy_independent (a b c : QRef) (h : Heap) (hd : b.data ≠ a.data)
    (hds : b.data ≠ a.scale) (hs : b.scale ≠ a.scale) (hsd : b.scale ≠ a.data) :
    b.value (copyInto a c h) = b.value h := copy_independent a b c h hd hds hs hsd

/-- T8: the result of an operation that allocates both inner tensors is independent of later
in-place writes into its operand — `clone`, `clone(contiguous)`, `to(copy=True)`. -/
theorem C05_fresh_result_independent (op : String) (_hop : producerSharing op = some .fresh)
    (a c : QRef) (d s : Nat) (h : Heap) (hd : d ≠ a.data) (hds : d ≠ a.scale) (hs : s ≠ a.scale)
    (hsd : s ≠ a.data) :
    (produce .fresh a d s).value (copyInto a c h) = (produce .fresh a d s).value h ∧
    a.value (copyInto (produce .fresh a d s) c h) = a.value h := by
  constructor
  · exact copy_independent a ⟨d, s⟩ c h hd hds hs hsd
  · exact copy_independent ⟨d, s⟩ a c h (Ne.symm hd) (Ne.symm hsd) (Ne.symm hs) (Ne.symm hds)

/-- T8: a view (both inner tensors shared) follows an in-place write into its base. -/
theorem C05_view_result_follows (a c : QRef) (d s : Nat) (h : Heap) (hne : a.data ≠ a.scale) :
    (produce .both a d s).value (copyInto a c h) = (h c.data, h c.scale) :=
  copy_follows a c h hne

/-- T8: exactly the operations whose sharing is what the float program requires (views share both
inner tensors, everything else shares none): the three clones and the six views. -/
theorem C05_sharing_respects_float_iff :
    aliasOps.filter (fun op => (producerSharing op).any (sharingRespectsFloat op)) =
      ["clone", "contiguous-clone", "to-copy", "detach", "t", "transpose", "unsqueeze", "view-flat",
       "expand-as-is"] := by decide

/-- T8 at full strength is false on the code as it is: `neg`, `relu`, `cat`, `stack` return fresh
payloads with their operand's scale tensor, scalar `mul` a fresh scale with its operand's payload —
an in-place `copy_` into the operand changes such a result although the float program leaves it
unchanged. -/
theorem C05_counterexample_copy_aliasing :
    (["neg", "relu", "cat-with-itself", "stack-with-itself"].all
        (fun op => producerSharing op == some .scale && !floatIsView op)) = true ∧
    (producerSharing "mul-scalar" = some .data ∧ floatIsView "mul-scalar" = false) ∧
    (∀ (a c : QRef) (d : Nat) (h : Heap), d ≠ a.data → d ≠ a.scale → h c.scale ≠ h a.scale →
      (produce .scale a d 0).value (copyInto a c h) ≠ (produce .scale a d 0).value h) ∧
    (∀ (a c : QRef) (s : Nat) (h : Heap), s ≠ a.scale → s ≠ a.data → a.data ≠ a.scale →
      h c.data ≠ h a.data →
      (produce .data a 0 s).value (copyInto a c h) ≠ (produce .data a 0 s).value h) := by
  refine ⟨by decide, ⟨by decide, by decide⟩, ?_, ?_⟩
  · intro a c d h hd hds hdiff
    exact copy_changes_shared_scale a c d h hd hds hdiff
  · intro a c s h hs hsd hne hdiff
    exact copy_changes_shared_data a c s h hs hsd hne hdiff

/-- the outcome the model predicts is the one the float program requires exactly when the sharing
respects the float program -/
theorem C05_predicted_outcome_iff (op : String) (sh : Sharing) :
    predicted sh = (if floatIsView op then Outcome.follows else Outcome.unchanged) ↔
      sharingRespectsFloat op sh = true := by
  unfold sharingRespectsFloat predicted
  cases sh <;> cases floatIsView op <;> simp

/-- non-vacuity: cells 0/1 for `a`, 2/3 for a clone, 4/5 for the source of the write -/
example : (produce .fresh ⟨0, 1⟩ 2 3).value (copyInto ⟨0, 1⟩ ⟨4, 5⟩ id) = (produce .fresh ⟨0, 1⟩ 2 3).value id :=
  (C05_fresh_result_independent "clone" (by decide) ⟨0, 1⟩ ⟨4, 5⟩ 2 3 id (by decide) (by decide)
    (by decide) (by decide)).1

/-- the live dispatch tables (regenerated from the implementation on every run) are exactly the
ops the model transcribes: an op added to or removed from a table breaks this obligation -/
theorem C05_dispatch_table_pinned :
    Generated.qbytesOps = modelQbytesOps ∧ Generated.qbitsOps = modelQbitsOps ∧ Generated.qtensorFuncs = modelQtensorFuncs := by
  decide

end Quanto

/-
Property C13 — leaving a `Calibration` context, normally or through an exception, restores the
global module-hook registries and the torch-function mode stack; the inference / quantization
entry points write no module state.  Helper lemmas: `Proofs/C13/Lemmas.lean`.
-/
import Quanto.Calib
import Quanto.Generated
import Proofs.C13.Lemmas
namespace Quanto

/-- the inference and quantization entry points contain no attribute write and no in-place call
(regenerated from the source text on every run); `freeze` writes exactly `self.weight` -/
theorem C13_no_writes_in_inference :
    (Generated.writeSets.filter (fun p => p.1 ≠ "QModuleMixin.freeze")).all (fun p => p.2.isEmpty) = true
    ∧ Generated.writeSets.lookup "QModuleMixin.freeze" = some ["self.weight"]
    ∧ Generated.writeSetsMissing = [] := by decide

/-- U1: running any well-nested trace of contexts (each exit possibly taken by an exception)
restores both hook registries and the mode stack; only the handle-id counter advances -/
theorem C13_scoped (t : Trace) (g : HookState) (hg : g.Fresh) :
    let g' := runTrace g t
    g'.preHooks = g.preHooks ∧ g'.postHooks = g.postHooks ∧ g'.modeStack = g.modeStack ∧
      g.nextId ≤ g'.nextId ∧ g'.Fresh := by
  induction t generalizing g with
  | nil => exact ⟨rfl, rfl, rfl, le_refl _, hg⟩
  | ctx c inner next ihI ihN =>
    simp only [runTrace_ctx]
    have hf1 := HookState.enter_fresh hg c
    obtain ⟨i1, i2, i3, i4, i5⟩ := ihI (g.enter c).1 hf1
    rw [HookState.enter_snd]
    generalize runTrace (g.enter c).1 inner = g2 at i1 i2 i3 i4 i5 ⊢
    have i4' : g.nextId + 2 ≤ g2.nextId := i4
    obtain ⟨e1, e2, e3, e4⟩ := HookState.exit_of_top hg c i1 i2 i3
    have hf3 : (g2.exit (g.nextId, g.nextId + 1)).Fresh := by
      constructor
      · intro p hp; rw [e1] at hp; rw [e4]; have := hg.1 p hp; omega
      · intro p hp; rw [e2] at hp; rw [e4]; have := hg.2 p hp; omega
    obtain ⟨n1, n2, n3, n4, n5⟩ := ihN _ hf3
    exact ⟨n1.trans e1, n2.trans e2, n3.trans e3, by omega, n5⟩

/-- U1 from the initial state of a fresh interpreter -/
theorem C13_scoped_initial (t : Trace) :
    let g' := runTrace ⟨[], [], 0, []⟩ t
    g'.preHooks = [] ∧ g'.postHooks = [] ∧ g'.modeStack = [] := by
  have h := C13_scoped t ⟨[], [], 0, []⟩ ⟨by simp, by simp⟩
  exact ⟨h.1, h.2.1, h.2.2.1⟩

/-- U2: entering and immediately leaving restores everything but the id counter -/
theorem C13_exit_removes_only_own (g : HookState) (hg : g.Fresh) (c : Nat) :
    (g.enter c).1.exit (g.enter c).2 = { g with nextId := g.nextId + 2 } := by
  obtain ⟨e1, e2, e3, e4⟩ :=
    HookState.exit_of_top (g2 := (g.enter c).1) hg c rfl rfl rfl
  rw [HookState.enter_snd]
  generalize (g.enter c).1.exit (g.nextId, g.nextId + 1) = r at e1 e2 e3 e4
  cases r
  simp only at e1 e2 e3 e4
  subst e1 e2 e3 e4
  rfl

/-- U3: the event machine used by the correspondence harness computes the same states as the
structural definition, under any stack of already open contexts -/
theorem C13_events_agree (t : Trace) (g : HookState) (stack : List (Nat × Nat)) :
    (Trace.events t).foldl HookRun.step ⟨g, stack⟩ = ⟨runTrace g t, stack⟩ := by
  induction t generalizing g stack with
  | nil => rfl
  | ctx c inner next ihI ihN =>
    rw [Trace.events, List.foldl_cons, List.foldl_append]
    have hstep : HookRun.step ⟨g, stack⟩ (.enter c) = ⟨(g.enter c).1, (g.enter c).2 :: stack⟩ := rfl
    rw [hstep, ihI, List.foldl_cons]
    have hexit : HookRun.step ⟨runTrace (g.enter c).1 inner, (g.enter c).2 :: stack⟩ .exit =
        ⟨(runTrace (g.enter c).1 inner).exit (g.enter c).2, stack⟩ := rfl
    rw [hexit, ihN, runTrace_ctx]

/-- U4: the exit of a nested context leaves the hooks and the mode of the outer context installed -/
theorem C13_nested_inner_exit_keeps_outer (g : HookState) (hg : g.Fresh) (a b : Nat) :
    let g1 := (g.enter a).1
    let g2 := (g1.enter b).1
    let h2 := (g1.enter b).2
    (g2.exit h2).preHooks = g1.preHooks ∧ (g2.exit h2).postHooks = g1.postHooks ∧
      (g2.exit h2).modeStack = g1.modeStack := by
  intro g1 g2 h2
  have h := C13_exit_removes_only_own g1 (HookState.enter_fresh hg a) b
  show ((g1.enter b).1.exit (g1.enter b).2).preHooks = _ ∧
    ((g1.enter b).1.exit (g1.enter b).2).postHooks = _ ∧
    ((g1.enter b).1.exit (g1.enter b).2).modeStack = _
  rw [h]
  exact ⟨rfl, rfl, rfl⟩

/-- the outer hooks really are there after the inner exit (and are removed by the outer exit) -/
theorem C13_nested_outer_present (g : HookState) (hg : g.Fresh) (a b : Nat) :
    let g1 := (g.enter a).1
    let g3 := (g1.enter b).1.exit (g1.enter b).2
    (g.nextId, a) ∈ g3.preHooks ∧ (g.nextId + 1, a) ∈ g3.postHooks ∧ g3.modeStack.head? = some a ∧
      (g3.exit (g.enter a).2).preHooks = g.preHooks ∧
      (g3.exit (g.enter a).2).postHooks = g.postHooks ∧
      (g3.exit (g.enter a).2).modeStack = g.modeStack := by
  intro g1 g3
  obtain ⟨k1, k2, k3⟩ := C13_nested_inner_exit_keeps_outer g hg a b
  have k1' : g3.preHooks = g.preHooks ++ [(g.nextId, a)] := k1
  have k2' : g3.postHooks = g.postHooks ++ [(g.nextId + 1, a)] := k2
  have k3' : g3.modeStack = a :: g.modeStack := k3
  obtain ⟨e1, e2, e3, -⟩ := HookState.exit_of_top hg a k1' k2' k3'
  refine ⟨by rw [k1']; simp, by rw [k2']; simp, by rw [k3']; rfl, e1, e2, e3⟩

/-! ### non-vacuity -/

/-- `with C1: (with C2: pass); with C3: pass` from a fresh interpreter: six handle ids consumed,
registries and mode stack empty again -/
example : runTrace ⟨[], [], 0, []⟩ (.ctx 1 (.ctx 2 .nil .nil) (.ctx 3 .nil .nil)) = ⟨[], [], 6, []⟩ := by
  decide

/-- the hypotheses of `C13_scoped` are satisfiable on a non-trivial state and its conclusion is
the concrete restored state -/
example :
    let g : HookState := ⟨[(0, 7)], [(1, 7)], 2, [7]⟩
    let g' := runTrace g (.ctx 1 (.ctx 2 .nil .nil) (.ctx 3 .nil .nil))
    g.Fresh ∧ g' = ⟨[(0, 7)], [(1, 7)], 8, [7]⟩ := by
  refine ⟨⟨by decide, by decide⟩, by decide⟩

/-- inside the nested context all three owners are registered, in order -/
example : (((HookState.mk [] [] 0 []).enter 1).1.enter 2).1 =
    ⟨[(0, 1), (2, 2)], [(1, 1), (3, 2)], 4, [2, 1]⟩ := by decide

/-! ### the switch of `disable_extensions` -/

/-- whatever happened inside, leaving a `disable_extensions` context leaves the extensions enabled:
after any sequence of events that ends with an exit the switch is on (so a single, un-nested use
restores the initial state, also when an exception propagates). -/
theorem C13_disable_extensions_exit_enables (events : List Bool) (enabled : Bool) (depth : Nat) :
    (extSwitch (events ++ [false]) enabled depth).1 = true := by
  simp [extSwitch, List.foldl_append]

/-- inside a context the switch is off -/
theorem C13_disable_extensions_enter_disables (events : List Bool) (enabled : Bool) (depth : Nat) :
    (extSwitch (events ++ [true]) enabled depth).1 = false := by
  simp [extSwitch, List.foldl_append]

/-- observation (the statement of C13 does not cover it): the exit does not restore the *previous*
value — after `enter, enter, exit` one context is still open and the extensions are enabled again. -/
theorem C13_counterexample_nested_disable_extensions :
    extSwitch [true, true, false] = (true, 1) := by decide

end Quanto

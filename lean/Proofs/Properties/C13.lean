import Quanto.Calib
import Quanto.Generated
namespace Quanto

/-- the inference and quantization entry points contain no attribute write and no in-place call
(regenerated from the source text on every run); `freeze` writes exactly `self.weight` -/
theorem C13_no_writes_in_inference :
    (Generated.writeSets.filter (fun p => p.1 ≠ "QModuleMixin.freeze")).all (fun p => p.2.isEmpty) = true
    ∧ Generated.writeSets.lookup "QModuleMixin.freeze" = some ["self.weight"]
    ∧ Generated.writeSetsMissing = [] := by decide

end Quanto

/-
Property C03 — scale selection: the absmax scale of a slice neither saturates nor wastes range
(up to rounding), scales have the keepdim shape and depend only on their own slice, grouping is
an element-preserving, invertible re-indexing whose rows / columns stay inside one slice.
Helper lemmas: `Proofs/Tensor/Index.lean`, `Proofs/C03/{Group,Lemmas,Clamp,Examples}.lean`.
-/
import Proofs.C03.Group
import Proofs.C03.Lemmas
import Proofs.C03.Clamp
import Proofs.C03.Examples

namespace Quanto

/-! ## B. scale selection, one slice -/

/-- T1: the model's slice reduction computes the largest magnitude -/
theorem C03_absmax_value (xs : List Rat) (h : xs ≠ []) :
    foldSlice FV.max (xs.map fun x => FV.abs (.fin x)) = .fin (listAbsMax xs) :=
  foldSlice_absmax xs h

/-- the running maximum of the executable predicate `specC03Slice` is `listAbsMax` -/
theorem C03_absmax_spec_agrees (xs : List Rat) :
    xs.foldl (fun a x => ratMax a (rabs x)) 0 = listAbsMax xs :=
  specAmax_eq xs

/-- T2: the (unclamped) scale is finite and non-negative -/
theorem C03_scale_finite (F : Fmt) (hF : WorkFmt F) (qmax : Rat) (hq : 1 ≤ qmax) (xs : List Rat)
    (h : listAbsMax xs ≤ F.maxFin) :
    ∃ sq, F.div (.fin (listAbsMax xs)) (.fin qmax) = .fin sq ∧ 0 ≤ sq :=
  ⟨_, scale_finite F hF qmax hq _ (listAbsMax_nonneg xs) h⟩

/-- T3 (weakened: absolute term `η·qmax·(1+2u)` instead of `η·qmax`; the statement with `η·qmax`
is false for float16, see `C03_nonsaturating_counterexample_f16`): no element exceeds the
representable range `sq·qmax` by more than rounding -/
theorem C03_nonsaturating_partial (F : Fmt) (hF : WorkFmt F) (qmax : Rat) (hq : 1 ≤ qmax)
    (xs : List Rat) (sq : Rat) (h : F.div (.fin (listAbsMax xs)) (.fin qmax) = .fin sq) :
    ∀ x ∈ xs, |x| ≤ sq * qmax * (1 + 2 * F.u) + F.eta * qmax * (1 + 2 * F.u) := by
  intro x hx
  have hq0 : 0 < qmax := by linarith
  have ha0 := listAbsMax_nonneg xs
  have hz0 : 0 ≤ listAbsMax xs / qmax := div_nonneg ha0 hq0.le
  have e := scale_err F hF qmax hq _ sq h
  rw [abs_of_nonneg hz0] at e
  have e' : listAbsMax xs / qmax - sq ≤ F.u * (listAbsMax xs / qmax) + F.eta := by
    have := neg_le_abs (sq - listAbsMax xs / qmax); linarith
  have hu : F.u ≤ 1 / 2 := by linarith [(u_eta_work F hF).1]
  have := nonsat_core_loose F.u F.eta _ sq qmax F.u_nonneg hu hq0 hz0 e'
  rw [div_mul_cancel₀ _ hq0.ne'] at this
  exact le_trans (le_listAbsMax xs x hx) this

/-- T3 in the normal range of `F` (the scale does not underflow): no absolute term at all -/
theorem C03_nonsaturating_normal (F : Fmt) (hF : WorkFmt F) (qmax : Rat) (hq : 1 ≤ qmax)
    (xs : List Rat) (sq : Rat) (hn : pow2 F.emin ≤ listAbsMax xs / qmax)
    (h : F.div (.fin (listAbsMax xs)) (.fin qmax) = .fin sq) :
    ∀ x ∈ xs, |x| ≤ sq * qmax * (1 + 2 * F.u) := by
  intro x hx
  have hq0 : 0 < qmax := by linarith
  have ha0 := listAbsMax_nonneg xs
  have hz0 : 0 ≤ listAbsMax xs / qmax := div_nonneg ha0 hq0.le
  rw [div_fin_fin F _ qmax hq0.ne'] at h
  have e := fl_err_normal F hF _ sq (by rw [abs_of_nonneg hz0]; exact hn) h
  rw [abs_of_nonneg hz0] at e
  have e' : listAbsMax xs / qmax * (1 - F.u) ≤ sq := by
    have := neg_le_abs (sq - listAbsMax xs / qmax); linarith
  have hu : F.u ≤ 1 / 2 := by linarith [(u_eta_work F hF).1]
  have h2 := le_of_mul_one_sub_le F.u _ sq F.u_nonneg hu hz0 e'
  have h3 := mul_le_mul_of_nonneg_right h2 hq0.le
  rw [div_mul_cancel₀ _ hq0.ne'] at h3
  calc |x| ≤ listAbsMax xs := le_listAbsMax xs x hx
    _ ≤ sq * (1 + 2 * F.u) * qmax := h3
    _ = _ := by ring

/-- T3 for the scale actually returned by the repaired optimizer (clamped to the smallest positive
value of `F`): the bound with the sharp absolute term `η·qmax` holds for every working format -/
theorem C03_nonsaturating_clamped (F : Fmt) (hF : WorkFmt F) (qmax : Rat) (hq : 1 ≤ qmax)
    (xs : List Rat) (sq : Rat) (h : absmaxOf F qmax true (.fin (listAbsMax xs)) = .fin sq) :
    ∀ x ∈ xs, |x| ≤ sq * qmax * (1 + 2 * F.u) + F.eta * qmax := by
  intro x hx
  have hq0 : 0 < qmax := by linarith
  have ha0 := listAbsMax_nonneg xs
  have hz0 : 0 ≤ listAbsMax xs / qmax := div_nonneg ha0 hq0.le
  rw [absmaxOf_true, div_fin_fin F _ qmax hq0.ne'] at h
  have hm := work_maxFin_ge F hF
  rcases hc : F.fl (.fin (listAbsMax xs / qmax)) with r | _ | _ | _
  · rw [hc, clampMin_fin] at h
    have hsq : sq = max r F.minPos := (FV.fin.inj h).symm
    have h2 := clamped_tight F hF _ r hz0 hc
    have h3 := mul_le_mul_of_nonneg_right h2 hq0.le
    rw [div_mul_cancel₀ _ hq0.ne', ← hsq] at h3
    calc |x| ≤ listAbsMax xs := le_listAbsMax xs x hx
      _ ≤ (sq * (1 + 2 * F.u) + F.eta) * qmax := h3
      _ = _ := by ring
  · rw [hc] at h; simp [FV.clampMin] at h
  · have := fl_ninf F hF _ hc
    linarith
  · exact absurd hc (fl_not_nan F hF _)

/-- T4: the (unclamped) scale wastes no range, up to rounding -/
theorem C03_fullrange (F : Fmt) (hF : WorkFmt F) (qmax : Rat) (hq : 1 ≤ qmax) (xs : List Rat)
    (sq : Rat) (h : F.div (.fin (listAbsMax xs)) (.fin qmax) = .fin sq) :
    sq ≤ listAbsMax xs / qmax * (1 + F.u) + F.eta := by
  have hq0 : 0 < qmax := by linarith
  have hz0 : 0 ≤ listAbsMax xs / qmax := div_nonneg (listAbsMax_nonneg xs) hq0.le
  have e := scale_err F hF qmax hq _ sq h
  rw [abs_of_nonneg hz0] at e
  have := le_abs_self (sq - listAbsMax xs / qmax)
  linarith

/-- T5: an all-zero slice gets a null (unclamped) scale — the recorded null-scale defect -/
theorem C03_zero_slice (F : Fmt) (hF : WorkFmt F) (qmax : Rat) (hq : 1 ≤ qmax) (xs : List Rat)
    (h : listAbsMax xs = 0) : F.div (.fin (listAbsMax xs)) (.fin qmax) = .fin 0 := by
  have hq0 : 0 < qmax := by linarith
  rw [h, div_fin_fin F 0 qmax hq0.ne', zero_div]
  exact fl_zero F hF

/-- T5 for the repaired optimizer: an all-zero slice gets the smallest positive value of `F` -/
theorem C03_zero_slice_clamped (F : Fmt) (hF : WorkFmt F) (qmax : Rat) (hq : 1 ≤ qmax)
    (xs : List Rat) (h : listAbsMax xs = 0) :
    absmaxOf F qmax true (.fin (listAbsMax xs)) = .fin F.minPos := by
  rw [absmaxOf_true, C03_zero_slice F hF qmax hq xs h, clampMin_fin,
    max_eq_right (minPos_pos F).le]

/-- T12: the clamped scale is finite, at least the smallest positive value of `F`, and wastes no
range up to rounding -/
theorem C03_clamped_scale (F : Fmt) (hF : WorkFmt F) (qmax : Rat) (hq : 1 ≤ qmax) (a : Rat)
    (ha0 : 0 ≤ a) (ha : a ≤ F.maxFin) :
    ∃ sq, absmaxOf F qmax true (.fin a) = .fin sq ∧ F.minPos ≤ sq ∧
      sq ≤ a / qmax * (1 + F.u) + 2 * F.eta := by
  refine ⟨_, absmaxOf_fin F hF qmax hq a ha0 ha, le_max_right _ _, ?_⟩
  have hq0 : 0 < qmax := by linarith
  have hz0 : 0 ≤ a / qmax := div_nonneg ha0 hq0.le
  have e := scale_err F hF qmax hq a _ (scale_finite F hF qmax hq a ha0 ha).1
  rw [abs_of_nonneg hz0] at e
  have h1 := le_abs_self (F.flR (a / qmax) - a / qmax)
  have h2 := minPos_le F
  have h3 := F.eta_nonneg
  have h4 : 0 ≤ a / qmax * (1 + F.u) := mul_nonneg hz0 (by linarith [F.u_nonneg])
  apply max_le <;> linarith

/-- T6: the executable predicate accepts the scale selected by the repaired optimizer -/
theorem C03_spec_slice_ok (F : Fmt) (hF : WorkFmt F) (qmax : Rat) (hq : 1 ≤ qmax) (xs : List Rat)
    (h : listAbsMax xs ≤ F.maxFin) :
    specC03Slice F qmax xs (absmaxOf F qmax true (.fin (listAbsMax xs))) = .ok := by
  have ha0 := listAbsMax_nonneg xs
  have hfin := absmaxOf_fin F hF qmax hq _ ha0 h
  obtain ⟨sq, hsq, hmin, hfull⟩ := C03_clamped_scale F hF qmax hq _ ha0 h
  have hsat := C03_nonsaturating_clamped F hF qmax hq xs sq hsq
  rw [hsq]
  apply specC03Slice_ok_of F qmax xs sq (le_trans (minPos_pos F).le hmin) _ hsat hfull
  intro hz
  have h0 := C03_zero_slice_clamped F hF qmax hq xs hz
  rw [hsq] at h0
  rw [FV.fin.inj h0]
  exact minPos_le F

/-- the statement of T3 with the sharp absolute term is false for the unclamped float16 scale: the
quotient `a/127` with `a = 127·(2^-25 + 2^-49)` is rounded to float32 (`2^-25`, a tie) and then to
float16 (`0`, again a tie), so the scale is null although `a/127 > η` -/
theorem C03_nonsaturating_counterexample_f16 :
    f16.div (.fin (listAbsMax [2130706559 / 562949953421312])) (.fin 127) = .fin 0 ∧
      ¬ (|(2130706559 / 562949953421312 : Rat)| ≤ 0 * 127 * (1 + 2 * f16.u) + f16.eta * 127) := by
  constructor
  · have : listAbsMax [2130706559 / 562949953421312] = 2130706559 / 562949953421312 := by
      norm_num [listAbsMax]
    rw [this]
    decide +kernel
  · norm_num [Fmt.u, Fmt.eta, Fmt.u1, Fmt.eta1, Fmt.isHalf, f16, f32, pow2_eq]

/-- the same at the level of the executable predicate (unclamped scale, float16) -/
theorem C03_spec_slice_counterexample_f16_unclamped :
    specC03Slice f16 127 [2130706559 / 562949953421312]
      (f16.div (.fin (2130706559 / 562949953421312)) (.fin 127)) = .saturates := by
  decide +kernel

/-- T7: the weight optimizer divides by 127 even for a float8 qtype (`qmax = 448`): the scale is
too large by a factor 3.5 — recorded defect -/
theorem C03_counterexample_float8_weights :
    specC03Slice f32 448 [1, -1, 1 / 2, 1 / 4] (f32.div (.fin 1) (.fin 127)) = .notFullRange := by
  decide +kernel

/-! ## C. tensor level: shape and locality -/

/-- T8: keepdim shape of the per-axis scale, scalar shape of the per-tensor scale -/
theorem C03_scale_shape (F : Fmt) (qmax : Rat) (t : T FV) (af c : Bool) :
    ((absmaxScale F qmax t (some af) c).shape = keptShape t.shape af ∧
      (absmaxScale F qmax t (some af) c).data.size = prod (keptShape t.shape af)) ∧
    ((absmaxScale F qmax t none c).shape = [] ∧ (absmaxScale F qmax t none c).data.size = 1) := by
  refine ⟨⟨rfl, ?_⟩, rfl, rfl⟩
  rw [absmaxScale_some, T.size_map, reduceSlices_size]
  rfl

/-- T9: a slice reduction at key `k` only reads the positions whose key is `k` -/
theorem C03_reduce_local (t t' : T FV) (af : Bool) (f : FV → FV → FV) (k : Nat)
    (hs : t.shape = t'.shape) (hd : t.data.size = t'.data.size)
    (h : ∀ n, n < t.data.size → keyAt t.shape af n = k → t.get n = t'.get n)
    (hk : k < prod (keptShape t.shape af)) :
    (reduceSlices t af f).get k = (reduceSlices t' af f).get k :=
  reduceSlices_local t t' af f k hs hd h hk

/-- T10: the absmax scale of slice `k` depends on slice `k` only -/
theorem C03_absmax_local (F : Fmt) (qmax : Rat) (t t' : T FV) (af c : Bool) (k : Nat)
    (hs : t.shape = t'.shape) (hd : t.data.size = t'.data.size)
    (h : ∀ n, n < t.data.size → keyAt t.shape af n = k → t.get n = t'.get n)
    (hk : k < prod (keptShape t.shape af)) :
    (absmaxScale F qmax t (some af) c).get k = (absmaxScale F qmax t' (some af) c).get k := by
  rw [absmaxScale_get F qmax t af c k hk, absmaxScale_get F qmax t' af c k (by rw [← hs]; exact hk)]
  congr 2
  apply sliceVals_congr (t.map FV.abs) (t'.map FV.abs) af k
    (show (t.map FV.abs).shape = (t'.map FV.abs).shape from hs)
    (by rw [T.size_map, T.size_map]; exact hd)
  intro n hn hkey
  rw [T.size_map] at hn
  rw [T.get_map _ _ _ hn, T.get_map _ _ _ (by rw [← hd]; exact hn), h n hn hkey]

/-- T11: scale and zero-point of the `MaxOptimizer` for slice `k` depend on slice `k` only -/
theorem C03_maxopt_local (F : Fmt) (bits : Nat) (ext : Bool) (t t' : T FV) (af : Bool) (k : Nat)
    (hs : t.shape = t'.shape) (hd : t.data.size = t'.data.size)
    (h : ∀ n, n < t.data.size → keyAt t.shape af n = k → t.get n = t'.get n)
    (hk : k < prod (keptShape t.shape af)) :
    (maxOptimize F bits ext t af).scale.get k = (maxOptimize F bits ext t' af).scale.get k ∧
      (maxOptimize F bits ext t af).zero.get k = (maxOptimize F bits ext t' af).zero.get k := by
  have hk' : k < prod (keptShape t'.shape af) := by rw [← hs]; exact hk
  rw [maxOptimize_scale_get F bits ext t af k hk, maxOptimize_scale_get F bits ext t' af k hk',
    maxOptimize_zero_get F bits ext t af k hk, maxOptimize_zero_get F bits ext t' af k hk',
    reduceSlices_local t t' af FV.min k hs hd h hk, reduceSlices_local t t' af FV.max k hs hd h hk]
  exact ⟨rfl, rfl⟩

/-! ## D. grouping -/

/-- G1: grouping keeps the number of elements -/
theorem C03_group_numel (shape : List Nat) (af : Bool) (gs : Nat) (s : List Nat)
    (h : groupShape shape af gs = some s) : prod s = prod shape :=
  groupShape_numel h

/-- G2 (axis 0): both index maps are the identity (a reshape) -/
theorem C03_group_src_first (shape : List Nat) (gs n : Nat) :
    groupSrc shape true gs n = n ∧ ungroupSrc shape true gs n = n :=
  ⟨groupSrc_first shape gs n, ungroupSrc_first shape gs n⟩

/-- G2 (axis -1): the two index maps are mutually inverse permutations of `[0, numel)` -/
theorem C03_group_src_inverse (shape : List Nat) (gs : Nat) (s : List Nat)
    (h : groupShape shape false gs = some s) :
    (∀ n, n < prod shape → groupSrc shape false gs (ungroupSrc shape false gs n) = n) ∧
      (∀ n, n < prod shape → ungroupSrc shape false gs (groupSrc shape false gs n) = n) := by
  obtain ⟨-, -, -, hp, -⟩ := groupShape_last_spec h
  constructor
  · intro n hn
    rw [hp] at hn
    rw [ungroupSrc_last, groupSrc_last, gSrc3_uSrc3 _ _ _ _ hn]
  · intro n hn
    rw [hp] at hn
    rw [ungroupSrc_last, groupSrc_last, uSrc3_gSrc3 _ _ _ _ (by
      rw [Nat.mul_comm _ (prod shape / shape.getLastD 0 / gs), ← Nat.mul_assoc]; exact hn)]

/-- G2 (axis -1): the index maps stay inside `[0, numel)` -/
theorem C03_group_src_lt (shape : List Nat) (gs : Nat) (s : List Nat)
    (h : groupShape shape false gs = some s) (n : Nat) (hn : n < prod shape) :
    groupSrc shape false gs n < prod shape ∧ ungroupSrc shape false gs n < prod shape := by
  obtain ⟨-, -, -, hp, -⟩ := groupShape_last_spec h
  rw [groupSrc_last, ungroupSrc_last]
  generalize prod shape / shape.getLastD 0 / gs = G at *
  generalize shape.getLastD 0 = D at *
  have e : gs * D * G = G * gs * D := by rw [Nat.mul_comm _ G, ← Nat.mul_assoc]
  constructor
  · rw [hp]; exact gSrc3_lt G gs D n (by rw [e, ← hp]; exact hn)
  · rw [hp, ← e]; exact uSrc3_lt G gs D n (by rw [← hp]; exact hn)

/-- G3: `ungroup` undoes `group` (whole tensor, including the `shape = orig` shortcut) -/
theorem C03_ungroup_group {α : Type} [Inhabited α] (t : T α) (af : Bool) (gs : Nat) (g : T α)
    (hwf : t.data.size = prod t.shape) (h : group t af gs = .ok g) :
    ungroup g af t.shape = t :=
  ungroup_group_eq t af gs g hwf h

/-- G4: row `n / gs` of the axis-0 grouped matrix lies inside one original first-axis index -/
theorem C03_group_key_first (shape : List Nat) (gs : Nat) (s : List Nat) (n : Nat)
    (h : groupShape shape true gs = some s) (_hn : n < prod shape) (_hne : shape ≠ []) :
    groupSrc shape true gs n / prod shape.tail = (n / gs) / (prod shape.tail / gs) := by
  obtain ⟨-, -, hgs, ⟨q, hq⟩, -, -⟩ := groupShape_first_spec h
  rw [groupSrc_first, hq, Nat.mul_div_cancel_left _ hgs, Nat.div_div_eq_div_mul]

/-- G5: column `n % (D·G)` of the axis -1 grouped matrix lies inside one original last-axis index -/
theorem C03_group_key_last (shape : List Nat) (gs : Nat) (s : List Nat) (n : Nat)
    (h : groupShape shape false gs = some s) (_hn : n < prod shape) :
    let D := shape.getLastD 0
    let G := prod shape / D / gs
    groupSrc shape false gs n % D = (n % (D * G)) / G := by
  intro D G
  obtain ⟨hD, -, hG, -, -⟩ := groupShape_last_spec h
  rw [groupSrc_last, gSrc3_eq]
  show (n % (D * G) % G * (gs * D) + (n / (D * G) * D + n % (D * G) / G)) % D = n % (D * G) / G
  have hb : n % (D * G) / G < D := by
    rw [Nat.div_lt_iff_lt_mul hG]
    exact Nat.mod_lt _ (Nat.mul_pos hD hG)
  have e : n % (D * G) % G * (gs * D) + (n / (D * G) * D + n % (D * G) / G) =
      n % (D * G) / G + (n % (D * G) % G * gs + n / (D * G)) * D := by ring
  rw [e, Nat.add_mul_mod_self_right, Nat.mod_eq_of_lt hb]

/-! ## non-vacuity -/

section NonVacuity
open C03Ex

example : groupShape [4, 6] false 2 = some [2, 12] := by decide

example : ∀ n, n < 24 → groupSrc [4, 6] false 2 (ungroupSrc [4, 6] false 2 n) = n :=
  (C03_group_src_inverse [4, 6] 2 [2, 12] (by decide)).1

/-- the permutation is not the identity: grouped position 1 reads original position 12 -/
example : groupSrc [4, 6] false 2 1 = 12 := by decide

example : group exT false 2 = .ok (exT.gather [2, 12] (groupSrc [4, 6] false 2)) := rfl

example : ungroup (exT.gather [2, 12] (groupSrc [4, 6] false 2)) false [4, 6] = exT :=
  C03_ungroup_group exT false 2 _ exT_wf rfl

example : (exT.gather [2, 12] (groupSrc [4, 6] false 2)).get 1 = .fin 12 := by decide +kernel

example : ∀ x ∈ [(1 / 3 : Rat), -2, 5 / 4],
    |x| ≤ 129 / 8192 * 127 * (1 + 2 * f16.u) + f16.eta * 127 * (1 + 2 * f16.u) :=
  C03_nonsaturating_partial f16 (by simp [WorkFmt]) 127 (by norm_num) _ _ exScale

example : (129 / 8192 : Rat) ≤ listAbsMax [1 / 3, -2, 5 / 4] / 127 * (1 + f16.u) + f16.eta :=
  C03_fullrange f16 (by simp [WorkFmt]) 127 (by norm_num) _ _ exScale

example : specC03Slice f16 127 [1 / 3, -2, 5 / 4]
    (absmaxOf f16 127 true (.fin (listAbsMax [1 / 3, -2, 5 / 4]))) = .ok :=
  C03_spec_slice_ok f16 (by simp [WorkFmt]) 127 (by norm_num) _
    (by rw [exAmax]; norm_num [Fmt.maxFin, f16, pow2_eq])

end NonVacuity

end Quanto

import Quanto.Spec.C02
namespace Quanto

/-- placeholder until the scale-selection proofs land -/
theorem C03_foldSlice_nil (f : FV → FV → FV) : foldSlice f [] = .fin 0 := rfl

end Quanto

import Quanto.Spec.C06
import Quanto.Ops
namespace Quanto

/-- placeholder until the invariant proofs land -/
theorem C06_scale_shape_per_tensor (size : List Nat) : scaleShapeFor size none = [[]] := rfl

end Quanto

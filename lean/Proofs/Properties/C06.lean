/-
C06 — every quantized tensor quanto returns reports a shape equal to that of its payload (one
code per element), a scale that broadcasts along the axis it declares, and a qtype whose storage
type is the payload's; moves and copies never alter codes; a dtype move changes only the scale.

The invariant is `QB.wf` (`Quanto/Spec/C06b.lean`): the executable verdict `wfQBytes` on the
metadata a model value reports, plus "arrays hold as many values as their shapes say".  The same
verdict is evaluated by the harness on the implementation's `__tensor_flatten__` view.
Helper lemmas: `Proofs/C06/{Basic,Moves,Ops,Steps,Bits}.lean`.
-/
import Proofs.C06.Steps
import Proofs.C06.Bits
import Proofs.C06.Examples
namespace Quanto
open Quanto.C06

/-! ### T0 — the invariant in closed form -/

/-- `QB.wf` says: one code per reported element, scalar scale when per-tensor, keepdim scale
along the declared axis (rank ≥ 2) when per-axis.  The qtype / storage / dtype name checks of
`wfQBytes` hold by construction for every model value (no restriction on `q.F`). -/
theorem C06_wf_iff (q : QB) :
    q.wf = true ↔
      q.data.shape = q.size ∧ q.data.data.size = prod q.size ∧
      q.scale.data.size = prod q.scale.shape ∧
      (q.axis = none → q.scale.shape = []) ∧
      (∀ af, q.axis = some af → 2 ≤ q.size.length ∧ q.scale.shape = keptShape q.size af) :=
  wf_iff q

/-- a per-tensor scale is a scalar -/
theorem C06_scale_shape_per_tensor (size : List Nat) : scaleShapeFor size none = [[]] := rfl

/-- the keepdim shape of `C06_wf_iff`, spelled out -/
theorem C06_keepdim_shape (size : List Nat) (h : 2 ≤ size.length) :
    keptShape size true = size.headD 0 :: List.replicate (size.length - 1) 1 ∧
    keptShape size false = List.replicate (size.length - 1) 1 ++ [size.getLastD 0] := by
  have h1 := scaleShapeFor_some size true h
  have h2 := scaleShapeFor_some size false h
  simp only [scaleShapeFor, List.cons.injEq, and_true] at h1 h2
  exact ⟨h1.symm, h2.symm⟩

/-- the reported qtype is a known 8-bit qtype whose storage type is the payload's dtype -/
theorem C06_qtype_storage (q : QB) :
    ∃ t, QType.ofName q.meta.qtype = some t ∧ t.bits = 8 ∧ q.meta.dataDtype = t.storage ∧
      t.qt = q.Q ∧ q.meta.outerDtype = q.meta.scaleDtype := by
  cases hQ : q.Q
  · exact ⟨.qint8, by simp only [QB.meta, hQ]; decide, rfl, by simp only [QB.meta, hQ]; rfl, rfl, rfl⟩
  · exact ⟨.qfloat8_e4m3fn, by simp only [QB.meta, hQ]; decide, rfl, by simp only [QB.meta, hQ]; rfl, rfl, rfl⟩
  · exact ⟨.qfloat8_e5m2, by simp only [QB.meta, hQ]; decide, rfl, by simp only [QB.meta, hQ]; rfl, rfl, rfl⟩

/-- a broadcastable scale: dequantization of a well-formed value never fails on shapes -/
theorem C06_scale_broadcasts (q : QB) (hq : q.wf = true) :
    bcastShape q.data.shape q.scale.shape = some q.size := by
  rw [wf_iff] at hq
  obtain ⟨h1, -, -, h4, h5⟩ := hq
  rw [h1]
  cases hax : q.axis with
  | none => rw [h4 hax]; exact bcastShape_scalar _
  | some af => rw [(h5 af hax).2]; exact bcastShape_keptShape _ _

/-! ### T1 — quantization -/

/-- `SymmetricQuantizer.forward` returns a well-formed tensor whenever it returns -/
theorem C06_quantize_wf (F : Fmt) (Q : QT) (x : T FV) (axis : Option Int) (scale : T FV) (r : QBytes)
    (h : symQuantize F Q x axis scale = .ok r) (hs : scale.data.size = prod scale.shape) :
    (QB.mk F Q r.axis r.size r.data r.scale).wf = true ∧ r.size = x.shape ∧ r.scale = scale :=
  ⟨quantize_wf h hs, (symQuantize_spec h).1, (symQuantize_spec h).2.1⟩

/-! ### T2 — movement ops (view, permute, transpose, select, slice, unsqueeze, expand) -/

/-- per-tensor: the codes are moved (not altered), the scale is untouched, the reported size is
the moved payload's shape -/
theorem C06_move_wf (m : MoveOp) (q r : QB) (hq : q.wf = true) (h : qbMove m q = .qb r) :
    r.wf = true ∧ q.axis = none ∧ r.axis = none ∧ m.apply q.data = some r.data ∧
      r.scale = q.scale ∧ r.F = q.F ∧ r.Q = q.Q := by
  obtain ⟨h1, h2, h3, h4, h5, h6, h7⟩ := move_wf hq h
  exact ⟨h1, h3, h2, h7, h4, h5, h6⟩

/-- per-axis: a movement op never returns a quantized tensor (it dequantizes or raises) -/
theorem C06_move_per_axis_not_quantized (m : MoveOp) (q : QB) (hq : q.axis ≠ none) :
    match qbMove m q with | .qb _ => False | _ => True :=
  move_per_axis hq

/-! ### T3 — `aten.t` -/

theorem C06_t_wf (q r : QB) (hq : q.wf = true) (h : qbT q = .qb r) :
    r.wf = true ∧ r.axis = q.axis.map (!·) ∧ r.size = q.size.reverse ∧
      (q.size.length = 2 → q.data.transpose? 0 1 = some r.data) ∧ (q.size.length < 2 → r = q) ∧
      r.F = q.F ∧ r.Q = q.Q := by
  obtain ⟨h1, h2, h3, h4, h5, h6, h7⟩ := t_wf hq h
  exact ⟨h1, h4, h5, h6, h7, h2, h3⟩

/-! ### T4 — elementwise ops, copies, dtype moves -/

theorem C06_elementwise_wf (q r : QB) (k : Rat) (hq : q.wf = true)
    (h : qbNeg q = .qb r ∨ qbRelu q = .qb r ∨ qbMulScalar q k = .qb r ∨ qbDivScalar q k = .qb r ∨
      qbDetach q = .qb r ∨ qbClone q = .qb r) :
    r.wf = true ∧ r.size = q.size ∧ r.axis = q.axis ∧ r.F = q.F ∧ r.Q = q.Q := by
  rcases h with h | h | h | h | h | h
  · obtain ⟨h1, h2, h3, -, h5, h6⟩ := neg_wf hq h; exact ⟨h1, h2, h3, h5, h6⟩
  · obtain ⟨h1, h2, h3, -, h5, h6⟩ := relu_wf hq h; exact ⟨h1, h2, h3, h5, h6⟩
  · obtain ⟨h1, h2, h3, -, h5, h6⟩ := mulScalar_wf hq h; exact ⟨h1, h2, h3, h5, h6⟩
  · obtain ⟨h1, h2, h3, -, h5, h6⟩ := divScalar_wf hq h; exact ⟨h1, h2, h3, h5, h6⟩
  · cases h; exact ⟨hq, rfl, rfl, rfl, rfl⟩
  · cases h; exact ⟨hq, rfl, rfl, rfl, rfl⟩

/-- `neg` / `relu` act on the codes only; scalar `mul` / `div` act on the scale only -/
theorem C06_elementwise_parts (q r : QB) (k : Rat) (hq : q.wf = true) :
    ((qbNeg q = .qb r ∨ qbRelu q = .qb r) → r.scale = q.scale) ∧
    ((qbMulScalar q k = .qb r ∨ qbDivScalar q k = .qb r) → r.data = q.data) := by
  refine ⟨fun h => ?_, fun h => ?_⟩
  · rcases h with h | h
    · exact (neg_wf hq h).2.2.2.1
    · exact (relu_wf hq h).2.2.2.1
  · rcases h with h | h
    · exact (mulScalar_wf hq h).2.2.2.1
    · exact (divScalar_wf hq h).2.2.2.1

/-- a dtype move changes only the dtype (and hence the rounding) of the scale -/
theorem C06_to_dtype (q : QB) (F' : Fmt) (hq : q.wf = true) :
    ∃ r, qbToDtype q F' = .qb r ∧ r.wf = true ∧ r.data = q.data ∧ r.Q = q.Q ∧ r.axis = q.axis ∧
      r.size = q.size ∧ r.F = F' ∧ r.scale = q.scale.map F'.rndV :=
  toDtype_wf F' hq

/-- copies return the very same value -/
theorem C06_moves_keep_codes (q : QB) : qbDetach q = .qb q ∧ qbClone q = .qb q := ⟨rfl, rfl⟩

/-! ### T5 — cat / stack / split -/

theorem C06_cat_stack_split_wf (a b : QB) (dim : Int) (ha : a.wf = true) :
    (∀ r, qbCat [.qb a, .qb b] dim = .qb r →
      r.wf = true ∧ T.cat? [a.data, b.data] dim = some r.data ∧ r.scale = a.scale) ∧
    (∀ fx r, qbStack fx [.qb a, .qb b] dim = .qb r →
      r.wf = true ∧ T.stack? [a.data, b.data] dim = some r.data ∧ r.scale = a.scale) ∧
    (∀ sz l, qbSplit true a sz dim = .listV l → ∀ v ∈ l, v.wf = true) := by
  refine ⟨fun r h => ?_, fun fx r h => ?_, fun sz l h => split_wf ha h⟩
  · obtain ⟨h1, -, h3, -, -, h6⟩ := cat_wf ha h; exact ⟨h1, h6, h3⟩
  · obtain ⟨h1, -, h3, -, -, h6⟩ := stack_wf ha h; exact ⟨h1, h6, h3⟩

/-- the original `split` (chunks re-wrapped with the size of the un-split input) returned
ill-formed tensors: a `4 × 2` per-tensor value split in two along dim 0 -/
theorem C06_counterexample_split_unfixed :
    ∃ q l, q.wf = true ∧ qbSplit false q 2 0 = .listV l ∧ ∃ v ∈ l, v.wf = false := by
  obtain ⟨l, h1, h2⟩ := split_unfixed_counterexample
  exact ⟨qSplit, l, qSplit_wf, h1, h2⟩

/-! ### T6 — re-quantized results (softmax, where) -/

theorem C06_requant_wf (F : Fmt) (Q : QT) (x : T FV) (scale : FV) (r : QB)
    (h : requant F Q x scale = .qb r) :
    r.wf = true ∧ r.axis = none ∧ r.size = x.shape ∧ r.F = F ∧ r.Q = Q :=
  requant_wf h

theorem C06_softmax_where_wf (q r : QB) (oracle : T FV)
    (h : qbSoftmax q oracle = .qb r ∨ qbWhere q oracle = .qb r) :
    r.wf = true ∧ r.size = oracle.shape ∧ r.F = q.F ∧ r.Q = q.Q := by
  rcases h with h | h
  · obtain ⟨h1, -, h3, h4, h5⟩ := requant_wf h; exact ⟨h1, h3, h4, h5⟩
  · unfold qbWhere at h
    split at h
    · obtain ⟨h1, -, h3, h4, h5⟩ := requant_wf h; exact ⟨h1, h3, h4, h5⟩
    · cases h

/-! ### T7 — the invariant along programs -/

/-- one intercepted op: every quantized tensor in the result is well-formed -/
theorem C06_step_wf (op : QOp) (q : QB) (hq : q.wf = true) : (op.run q).wf = true :=
  step_wf op hq

/-- every result of a program of intercepted ops run on a well-formed tensor is well-formed -/
theorem C06_reachable (ops : List QOp) (q : QB) (hq : q.wf = true) :
    ∀ v ∈ trace ops q, v.wf = true :=
  trace_wf ops hq

/-- the same for any choice of the quantized component (of a `split`) fed to the next op -/
theorem C06_reachable_any (q0 q : QB) (h0 : q0.wf = true) (h : Reach q0 q) : q.wf = true :=
  reach_wf h0 h

/-! ### T8 — 2/4-bit tensors -/

/-- `quantize_weight` for qint2 / qint4 (any rank, grouped or not): the codes have the grouped
shape (or the input shape), scale and zero-point its keepdim shape, and the packed payload
`ceil(rows · bits / 8)` rows; all arrays hold as many values as their shapes say -/
theorem C06_affine_quantize_wf (F : Fmt) (bits : Nat) (ext : Bool) (x : T FV) (af : Bool)
    (gs : Option Nat) (q : QBits) (hb : bits = 2 ∨ bits = 4)
    (h : affQuantize F bits ext x af gs = .ok q) :
    wfQBits (QBits.meta F q) = .ok ∧
      q.data.data.size = prod q.data.shape ∧ q.scale.data.size = prod q.scale.shape ∧
      q.zero.data.size = prod q.zero.shape ∧
      (packWeights q.bits q.data).data.size = prod (packWeights q.bits q.data).shape :=
  affQuantize_wf hb h

/-- the shapes behind `C06_affine_quantize_wf` -/
theorem C06_affine_quantize_shapes (F : Fmt) (bits : Nat) (ext : Bool) (x : T FV) (af : Bool)
    (gs : Option Nat) (q : QBits) (h : affQuantize F bits ext x af gs = .ok q) :
    ∃ cs, codeShape x.shape af gs = some cs ∧ q.size = x.shape ∧ q.data.shape = cs ∧
      q.scale.shape = keptShape cs af ∧ q.zero.shape = keptShape cs af ∧ prod cs = prod x.shape := by
  obtain ⟨cs, h0, -, -, -, h4, h5, -, h7, -, h9, -⟩ := affQuantize_spec h
  refine ⟨cs, h0, h4, h5, h7, h9, ?_⟩
  cases gs with
  | none => cases h0; rfl
  | some g => exact C03_group_numel _ _ _ _ h0

/-! ### non-vacuity -/

/-- a well-formed per-tensor float16 / qint8 value of size `[2, 3]` -/
example : exPerTensor.wf = true := by
  rw [C06_wf_iff]; exact ⟨rfl, rfl, rfl, fun _ => rfl, fun af h => by cases h⟩

/-- T2 on a permute of that value: a quantized result of size `[3, 2]`, well-formed -/
example : ∃ r, qbMove (.permute [1, 0]) exPerTensor = .qb r ∧ r.wf = true ∧ r.size = [3, 2] := by
  have hq : exPerTensor.wf = true := by
    rw [C06_wf_iff]; exact ⟨rfl, rfl, rfl, fun _ => rfl, fun af h => by cases h⟩
  exact ⟨_, rfl, (C06_move_wf (.permute [1, 0]) exPerTensor _ hq rfl).1, rfl⟩

/-- a well-formed per-axis value (axis 0) and its transpose (axis -1) -/
example : ∃ r, qbT exPerAxis = .qb r ∧
    r.wf = true ∧ r.axis = some false ∧ r.size = [3, 2] ∧ r.scale.shape = [1, 2] := by
  have hq : exPerAxis.wf = true := by
    rw [C06_wf_iff]
    refine ⟨rfl, rfl, rfl, fun h => (by cases h), fun af h => ?_⟩
    cases h; exact ⟨by decide, rfl⟩
  exact ⟨_, rfl, (C06_t_wf exPerAxis _ hq rfl).1, rfl, rfl, rfl⟩

/-- T1 on a concrete per-axis call: `symQuantize` succeeds and the result is well-formed -/
example : ∃ r, symQuantize f32 .qint8 exInput (some 0) exScale = .ok r ∧
    (QB.mk f32 .qint8 r.axis r.size r.data r.scale).wf = true ∧ r.axis = some true := by
  have hv : symValidate [2, 2] (some 0) [2, 1] = .ok (some true) := by decide
  have hb : bcastShape [2, 2] [2, 1] = some [2, 2] := by decide
  cases h : symQuantize f32 .qint8 exInput (some 0) exScale with
  | error e => simp [symQuantize, exInput, exScale, hv, hb] at h
  | ok r =>
    refine ⟨r, rfl, (C06_quantize_wf f32 .qint8 _ (some 0) _ _ h rfl).1, ?_⟩
    simp [symQuantize, exInput, exScale, hv, hb] at h
    rw [← h]

/-- T8 on a concrete grouped call -/
example : ∃ q, affQuantize f32 4 true exWeight true (some 2) = .ok q ∧
    wfQBits (QBits.meta f32 q) = .ok ∧ q.data.shape = [4, 2] := by
  have hg : groupShape [2, 4] true 2 = some [4, 2] := by decide
  have hk : bcastShape [4, 2] (keptShape [4, 2] true) = some [4, 2] := bcastShape_keptShape _ _
  cases h : affQuantize f32 4 true exWeight true (some 2) with
  | error e =>
    simp [affQuantize, affQuantizeWith, group, exWeight, hg, T.gather, T.ofFn, maxOptimize,
      reduceSlices, hk] at h
  | ok q =>
    obtain ⟨cs, h0, -, h5, -⟩ := C06_affine_quantize_shapes _ _ _ _ _ _ _ h
    have hc : codeShape exWeight.shape true (some 2) = some [4, 2] := hg
    rw [hc] at h0; cases h0
    exact ⟨q, rfl, (C06_affine_quantize_wf _ _ _ _ _ _ _ (Or.inr rfl) h).1, h5⟩

/-- T7 on a concrete program: five results (dtype move, permute, neg, split, t), all well-formed -/
example :
    (trace [.toDtype f32, .move (.permute [1, 0]), .neg, .split 1 0, .t] exPerTensor).length = 5 ∧
    ∀ v ∈ trace [.toDtype f32, .move (.permute [1, 0]), .neg, .split 1 0, .t] exPerTensor,
      v.wf = true := by
  refine ⟨by decide +kernel, C06_reachable _ _ ?_⟩
  rw [C06_wf_iff]; exact ⟨rfl, rfl, rfl, fun _ => rfl, fun af h => by cases h⟩

end Quanto

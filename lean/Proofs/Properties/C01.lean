/-
Property C01 — 8-bit symmetric quantization maps every element to a nearest point of the
value grid, saturates instead of wrapping, dequantizes to `fl(s·c)` and is idempotent on
dequantized values (under the stated side conditions).
-/
import Proofs.C01.Lemmas

namespace Quanto

/-- T1: the stored code is a finite value of the grid. -/
theorem C01_code_in_grid (F : Fmt) (hF : WorkFmt F) (Q : QT) (x s : Rat) (hs : 0 < s) :
    ∃ c, symCode F Q (.fin x) (.fin s) = .fin c ∧ Q.InGrid c := by
  rcases symCode_cases F hF Q x s hs with h | h | h
  · exact ⟨_, h.2.2, codeOf_inGrid Q _⟩
  · refine ⟨_, h.2, ?_⟩
    rw [← codeOf_sat_hi Q Q.qmax le_rfl]; exact codeOf_inGrid Q _
  · refine ⟨_, h.2, ?_⟩
    rw [← codeOf_sat_lo Q Q.qmin le_rfl]; exact codeOf_inGrid Q _

/-- T2: saturation at the top of the grid (no wrap-around). -/
theorem C01_saturates_hi (F : Fmt) (hF : WorkFmt F) (Q : QT) (x s : Rat) (hs : 0 < s)
    (h : Q.qmax ≤ x / s) : symCode F Q (.fin x) (.fin s) = .fin Q.qmax := by
  rcases symCode_cases F hF Q x s hs with hc | hc | hc
  · rw [hc.2.2, codeOf_sat_hi Q _ (le_flR_of_rep F hF (work_rep_qmax F hF Q) h)]
  · exact hc.2
  · have := Q.qmax_pos
    have := QT.qmax_le_work F hF Q
    linarith [hc.1]

/-- T3: saturation at the bottom of the grid. -/
theorem C01_saturates_lo (F : Fmt) (hF : WorkFmt F) (Q : QT) (x s : Rat) (hs : 0 < s)
    (h : x / s ≤ Q.qmin) : symCode F Q (.fin x) (.fin s) = .fin Q.qmin := by
  rcases symCode_cases F hF Q x s hs with hc | hc | hc
  · rw [hc.2.2, codeOf_sat_lo Q _ (flR_le_of_rep F hF (work_rep_qmin F hF Q) h)]
  · have := Q.qmin_neg
    have := QT.qmax_le_work F hF Q
    have := Q.qmax_pos
    linarith [hc.1]
  · exact hc.2

/-- T4: the dequantized value is, up to the rounding allowance `epsC01`, at least as close to
`x` as any scaled grid point. -/
theorem C01_nearest (F : Fmt) (hF : WorkFmt F) (Q : QT) (x s : Rat) (hs : 0 < s) :
    ∀ c y, symCode F Q (.fin x) (.fin s) = .fin c → symDeq F (.fin c) (.fin s) = .fin y →
      ∀ v, Q.InGrid v → |y - x| ≤ |s * v - x| + epsC01 F x s c := by
  intro c y hc hy v hv
  unfold epsC01
  rw [rabs_eq, rabs_eq]
  exact nearest_core F hF Q x s hs c y hc hy v hv

set_option linter.unusedVariables false in
/-- T5: the dequantized value is finite whenever the exact product is in range. -/
theorem C01_deq_finite (F : Fmt) (hF : WorkFmt F) (Q : QT) (x s : Rat) (hs : 0 < s) :
    ∀ c, s * |c| ≤ F.maxFin → ∃ y, symDeq F (.fin c) (.fin s) = .fin y := by
  intro c h
  refine ⟨F.flR (s * c), ?_⟩
  rw [symDeq_eq]
  apply fl_fin_of_le F hF
  rwa [abs_mul, abs_of_pos hs]

set_option linter.unusedVariables false in
/-- T6: the dequantized value is the rounding of the grid point `s·c`. -/
theorem C01_deq_is_grid_point (F : Fmt) (hF : WorkFmt F) (Q : QT) (x s : Rat) (hs : 0 < s) :
    ∀ c y, symDeq F (.fin c) (.fin s) = .fin y → |y - s * c| ≤ F.u * (s * |c|) + F.eta := by
  intro c y h
  rw [symDeq_eq] at h
  have := fl_err F hF _ _ h
  rwa [abs_mul, abs_of_pos hs] at this

/-- T7: re-quantizing a dequantized int8 code with the same scale gives the code back, when the
product `s·n` is a normal number of the working format (float32 / float16). -/
theorem C01_idempotent_int8 (F : Fmt) (hF' : F = f32 ∨ F = f16) (s : Rat) (hs : 0 < s) :
    ∀ n : Int, -128 ≤ n → n ≤ 127 →
      (pow2 F.emin ≤ s * |(n : Rat)| ∨ n = 0) → s * |(n : Rat)| ≤ F.maxFin →
      ∀ y, symDeq F (.fin n) (.fin s) = .fin y → symCode F .qint8 (.fin y) (.fin s) = .fin n := by
  intro n hn1 hn2 hnorm _ y hy
  have hF : WorkFmt F := by rcases hF' with rfl | rfl <;> simp [WorkFmt]
  obtain ⟨hu, he⟩ := u_eta_small F hF'
  exact idem_int8_core F hF hu he s hs n hn1 hn2 hnorm y hy

/-- T8 (strong form): re-quantizing a dequantized float8 code with the same scale gives the code
back, in every working format (float32, float16 and bfloat16), when the product `s·c` is a
normal number of the working format. -/
theorem C01_idempotent_float8_work (F : Fmt) (hF : WorkFmt F) (Q : QT)
    (hQ : Q = .e4m3 ∨ Q = .e5m2) (s : Rat) (hs : 0 < s) :
    ∀ c, Q.InGrid c → (pow2 F.emin ≤ s * |c| ∨ c = 0) → s * |c| ≤ F.maxFin →
      ∀ y, symDeq F (.fin c) (.fin s) = .fin y → symCode F Q (.fin y) (.fin s) = .fin c := by
  intro c hc hnorm _ y hy
  obtain ⟨hu, he⟩ := u_eta_work F hF
  have hQ' : Q.isFloat = true := by rcases hQ with rfl | rfl <;> rfl
  exact idem_float8_core F hF hu he Q hQ' s hs c hc hnorm y hy

/-- T8: the float8 idempotence statement with the same format hypothesis as T7. -/
theorem C01_idempotent_float8 (F : Fmt) (hF' : F = f32 ∨ F = f16) (Q : QT)
    (hQ : Q = .e4m3 ∨ Q = .e5m2) (s : Rat) (hs : 0 < s) :
    ∀ c, Q.InGrid c → (pow2 F.emin ≤ s * |c| ∨ c = 0) → s * |c| ≤ F.maxFin →
      ∀ y, symDeq F (.fin c) (.fin s) = .fin y → symCode F Q (.fin y) (.fin s) = .fin c :=
  C01_idempotent_float8_work F (by rcases hF' with rfl | rfl <;> simp [WorkFmt]) Q hQ s hs

/-- T9: the tensor-level quantizer applies the scalar quantizer at every position of the
broadcast shape. -/
theorem C01_tensor (F : Fmt) (Q : QT) (x : T FV) (axis : Option Int) (scale : T FV) (qb : QBytes)
    (h : symQuantize F Q x axis scale = .ok qb) :
    qb.size = x.shape ∧ qb.scale = scale ∧
      ∃ out, bcastShape x.shape scale.shape = some out ∧ qb.data.shape = out ∧
        ∀ n, n < prod out → qb.data.get n =
          symCode F Q (x.get (bcastSrc out x.shape n)) (scale.get (bcastSrc out scale.shape n)) := by
  unfold symQuantize at h
  split at h
  · cases h
  · split at h
    · cases h
    · rename_i out hout
      injection h with h
      subst h
      refine ⟨rfl, rfl, out, hout, rfl, ?_⟩
      intro n hn
      simp [T.get, T.ofFn, hn]

/-- T10: every element of the executable grid `Q.grid` (used by `specC01`) is a mathematical
grid value, so `C01_nearest` implies the executable `grid.all …` check. -/
theorem C01_grid_sound (Q : QT) : ∀ v, v ∈ Q.grid → Q.InGrid v :=
  fun v hv => grid_sound Q v hv

/-- T12: for qint8 the executable grid is exactly the mathematical one. -/
theorem C01_grid_complete_int8 : ∀ v, QT.InGrid .qint8 v → v ∈ QT.grid .qint8 :=
  grid_complete_int8

/-- T11a (defect): a finite input whose dequantized value overflows to `+inf` in float16. -/
theorem C01_counterexample_deq_overflow :
    symDeq f16 (symCode f16 .qint8 (.fin 65504) (.fin 1000)) (.fin 1000) = .pinf := by
  decide +kernel

/-- T11b (defect): with a subnormal scale the dequantized value of the e4m3 code 3/2 is
re-quantized to a different code (2). -/
theorem C01_counterexample_idem_subnormal :
    symDeq f16 (.fin (3 / 2)) (.fin (pow2 (-24))) = .fin (2 * pow2 (-24)) ∧
    symCode f16 .e4m3 (.fin (2 * pow2 (-24))) (.fin (pow2 (-24))) = .fin 2 := by
  decide +kernel

/-- why T7 excludes bfloat16: with the bfloat16 scale 213/128 the int8 code 91 dequantizes to 151
(a normal product) and is re-quantized to 90. -/
theorem C01_counterexample_idem_int8_bf16 :
    symDeq bf16 (.fin 91) (.fin (213 / 128)) = .fin 151 ∧
    symCode bf16 .qint8 (.fin 151) (.fin (213 / 128)) = .fin 90 := by
  decide +kernel

/-! ### non-vacuity: concrete instances satisfy the hypotheses of T4, T7 and T8 -/

/-- T4 instantiated at float16 / qint8, x = 1/3, s = 1/100 (code 33, dequantized 169/512). -/
example : |(169 / 512 : Rat) - 1 / 3| ≤
    |(1 / 100 : Rat) * 33 - 1 / 3| + epsC01 f16 (1 / 3) (1 / 100) 33 :=
  C01_nearest f16 (by simp [WorkFmt]) .qint8 (1 / 3) (1 / 100) (by norm_num) 33 (169 / 512)
    (by decide +kernel) (by decide +kernel) 33 ⟨33, by norm_num, by omega, by omega⟩

/-- T4 instantiated at bfloat16 / e5m2, x = -7, s = 1/1000 (code -7168, dequantized -229/32),
compared with the grid value 57344. -/
example : |(-229 / 32 : Rat) - (-7)| ≤
    |(1 / 1000 : Rat) * 57344 - (-7)| + epsC01 bf16 (-7) (1 / 1000) (-7168) :=
  C01_nearest bf16 (by simp [WorkFmt]) .e5m2 (-7) (1 / 1000) (by norm_num) (-7168) (-229 / 32)
    (by decide +kernel) (by decide +kernel) 57344
    (C01_grid_sound .e5m2 57344 (by decide +kernel))

/-- T7 instantiated at float16, s = 1/100, n = 33. -/
example : symCode f16 .qint8 (.fin (169 / 512)) (.fin (1 / 100)) = .fin ((33 : Int) : Rat) :=
  C01_idempotent_int8 f16 (Or.inr rfl) (1 / 100) (by norm_num) 33 (by omega) (by omega)
    (Or.inl (by norm_num [f16, pow2_eq])) (by norm_num [Fmt.maxFin, f16, pow2_eq]) (169 / 512)
    (by decide +kernel)

/-- T8 instantiated at float16 / e4m3, s = 1/100, c = 32. -/
example : symCode f16 .e4m3 (.fin (1311 / 4096)) (.fin (1 / 100)) = .fin 32 :=
  C01_idempotent_float8 f16 (Or.inr rfl) .e4m3 (Or.inl rfl) (1 / 100) (by norm_num) 32
    (C01_grid_sound .e4m3 32 (by decide +kernel))
    (Or.inl (by norm_num [f16, pow2_eq])) (by norm_num [Fmt.maxFin, f16, pow2_eq]) (1311 / 4096)
    (by decide +kernel)

end Quanto

import Quanto.Spec.C01
namespace Quanto

/-- placeholder obligation until the float lemma library lands: the grid of qint8 has 256 points -/
theorem C01_grid_size : (QT.grid .qint8).length = 256 := by simp [QT.grid]

end Quanto

import Quanto.AwqBits
namespace Quanto

/-- the two AWQ order lists (regenerated from the source on every run) are inverse permutations -/
theorem C15_orders_inverse :
    (List.range 8).all (fun m => Generated.awqOrder.getD (Generated.awqReverseOrder.getD m 8) 8 = m
      && Generated.awqReverseOrder.getD (Generated.awqOrder.getD m 8) 8 = m) = true := by decide

end Quanto

/-
Property C15 — AWQ layouts (`qbits/awq/packed.py`, `qbits/awq/qbits.py`): the v1 (int32) and
v2 (int16) packings are lossless, `pack_v2` is the reference packer, the scaled zero-points give
the integer zero-points back, the conversion to the AWQ representation and back is the identity,
and the AWQ dequantizer agrees with the standard one up to rounding.

Well-formed 4-bit matrix `t : T Nat` of size `[N, K]`: `t.shape = [N, K]`,
`t.data.size = N * K`, `∀ i, i < N * K → t.get i < 16`.
-/
import Proofs.C15.Back
import Proofs.C15.Denote
import Proofs.C15.Sample
import Proofs.C15.Select

namespace Quanto

/-- T0: the two AWQ order lists (regenerated from the source on every run) are inverse permutations -/
theorem C15_orders_inverse :
    (List.range 8).all (fun m => Generated.awqOrder.getD (Generated.awqReverseOrder.getD m 8) 8 = m
      && Generated.awqReverseOrder.getD (Generated.awqOrder.getD m 8) 8 = m) = true := by decide

/-- T1: `unpack(pack(t, reorder), reorder) = t` for every `[N, K]` matrix of 4-bit codes with
`8 ∣ K`, with and without the AWQ column reordering. -/
theorem C15_v1_roundtrip (t : T Nat) (N K : Nat) (hs : t.shape = [N, K])
    (hsz : t.data.size = N * K) (h8 : 8 ∣ K) (hv : ∀ i, i < N * K → t.get i < 16) :
    ∀ reorder, awqUnpackV1 reorder (awqPackV1 reorder t) = t :=
  fun reorder => v1_roundtrip t N K hs hsz h8 hv reorder

/-- T2: the position permutation of `pack_v2` is that of the reference packer — for every tensor
(the intermediate views do not move data), no divisibility hypothesis needed. -/
theorem C15_v2_reorder_is_reference (t : T Nat) : awqV2Reorder t = awqRefReorder t := rfl

/-- T2: `pack_v2` is `external/awq/pack_intweight.py` (interleave 4, kstride 64). -/
theorem C15_v2_is_reference (t : T Nat) : awqPackV2 t = awqPackRef t := rfl

/-- T3: `unpack_v2(pack_v2(t)) = t` for every `[N, K]` matrix of 4-bit codes with `4 ∣ N`,
`64 ∣ K`. -/
theorem C15_v2_roundtrip (t : T Nat) (N K : Nat) (hs : t.shape = [N, K])
    (hsz : t.data.size = N * K) (h4 : 4 ∣ N) (h64 : 64 ∣ K)
    (hv : ∀ i, i < N * K → t.get i < 16) : awqUnpackV2 (awqPackV2 t) = t :=
  v2_roundtrip t N K hs hsz h4 h64 hv

/-- T3 for the reference packer. -/
theorem C15_ref_roundtrip (t : T Nat) (N K : Nat) (hs : t.shape = [N, K])
    (hsz : t.data.size = N * K) (h4 : 4 ∣ N) (h64 : 64 ∣ K)
    (hv : ∀ i, i < N * K → t.get i < 16) : awqUnpackV2 (awqPackRef t) = t :=
  v2_roundtrip t N K hs hsz h4 h64 hv

/-- T4: the integer zero-point is recovered from the scaled, negated zero-point `fl(-z·s)`:
every working format, representable positive scale, `|z| ≤ 15` (in particular `0 ≤ z ≤ 15`). -/
theorem C15_zeropoint_recovered (F : Fmt) (hF : WorkFmt F) (s : Rat) (hpos : 0 < s)
    (hrep : F.Rep s) (z : Int) (hz : |z| ≤ 15) (hfin : s * 15 ≤ F.maxFin) :
    toInt8 ((F.div (F.mul (.fin (wrapInt8 (-z))) (.fin s)).neg (.fin s)).round) = z :=
  zeropoint_recovered_work F hF s hrep hpos z hz hfin

/-- T4 as requested (`0 ≤ z ≤ 15`). -/
theorem C15_zeropoint_recovered_nonneg (F : Fmt) (hF : WorkFmt F) (s : Rat) (hpos : 0 < s)
    (hrep : F.Rep s) (z : Int) (hz0 : 0 ≤ z) (hz1 : z ≤ 15) (hfin : s * 15 ≤ F.maxFin) :
    toInt8 ((F.div (F.mul (.fin (wrapInt8 (-z))) (.fin s)).neg (.fin s)).round) = z :=
  zeropoint_recovered_work F hF s hrep hpos z (abs_le.mpr ⟨by omega, hz1⟩) hfin

/-- T4, float32 / float16: every int8 zero-point but -128, provided `z·s` does not overflow. -/
theorem C15_zeropoint_recovered_int8 (F : Fmt) (hF : F = f32 ∨ F = f16) (s : Rat) (hpos : 0 < s)
    (hrep : F.Rep s) (z : Int) (hz : |z| ≤ 127) (hfin : s * |(z : Rat)| ≤ F.maxFin) :
    toInt8 ((F.div (F.mul (.fin (wrapInt8 (-z))) (.fin s)).neg (.fin s)).round) = z :=
  zeropoint_recovered_int8 F hF s hrep hpos z hz hfin

/-- the int8 range of T4 does not extend to bfloat16: `z = 127`, `s = 3/2` gives 126. -/
theorem C15_counterexample_zeropoint_bf16 :
    toInt8 ((bf16.div (bf16.mul (.fin (wrapInt8 (-127))) (.fin (3 / 2))).neg (.fin (3 / 2))).round)
      = 126 := by
  decide +kernel

/-- T5: a standard 4-bit tensor quantized along axis 0 in groups of `gs` columns, converted to
the AWQ representation and back (as repaired), is the tensor itself — whole structure. -/
theorem C15_back_conversion (F : Fmt) (hF : WorkFmt F) (q : QBits) (N K gs : Nat)
    (hbits : q.bits = 4) (haxis : q.axisFirst = true) (hgs : q.groupSize = some gs)
    (hsize : q.size = [N, K]) (hgd : gs ∣ K) (h4 : 4 ∣ N) (h64 : 64 ∣ K)
    (hds : q.data.shape = [N * K / gs, gs]) (hdsz : q.data.data.size = N * K)
    (hcodes : ∀ i, i < N * K → q.data.get i < 16)
    (hss : q.scale.shape = [N * K / gs, 1]) (hssz : q.scale.data.size = N * K / gs)
    (hsv : ∀ i, i < N * K / gs →
      ∃ s, q.scale.get i = .fin s ∧ 0 < s ∧ F.Rep s ∧ s * 15 ≤ F.maxFin)
    (hzs : q.zero.shape = [N * K / gs, 1]) (hzsz : q.zero.data.size = N * K / gs)
    (hzv : ∀ i, i < N * K / gs → 0 ≤ q.zero.get i ∧ q.zero.get i ≤ 15) :
    (AwqBits.ofQBits F q).toQBits F 4 = q :=
  back_conversion F hF q N K gs hbits haxis hgs hsize hgd h4 h64 hds hdsz hcodes hss hssz hsv hzs
    hzsz (fun i hi => abs_le.mpr ⟨by have := (hzv i hi).1; omega, (hzv i hi).2⟩)

/-- T6 (bound altered, see the report): one element, code `c < 16`, zero-point `0 ≤ z ≤ 15`,
scale `s > 0`, all intermediate values finite.  `ya` is what `AWQBitsDequantizer` computes
(`s·c` rounded, plus the stored `fl(-z·s)`, rounded), `ys` what `QBitsDequantizer` computes
(`s·(c - z)` rounded). -/
theorem C15_denotes_same (F : Fmt) (hF : WorkFmt F) (s : Rat) (hpos : 0 < s) (c : Nat)
    (hc : c < 16) (z : Int) (hz0 : 0 ≤ z) (hz1 : z ≤ 15) (p1 p2 ya ys : Rat)
    (hp1 : F.mul (.fin s) (.fin (c : Rat)) = .fin p1)
    (hp2 : F.mul (.fin (wrapInt8 (-z))) (.fin s) = .fin p2)
    (hya : F.add (.fin p1) (.fin p2) = .fin ya)
    (hys : affDeq F c (.fin s) z = .fin ys) :
    |ya - ys| ≤ F.u * (s * c + s * z) * (1 + F.u) + 2 * F.u * |s * ((c : Rat) - z)| +
      (4 + 2 * F.u) * F.eta := by
  obtain ⟨t1, t2⟩ := awq_terms F s c z hz0 (by omega)
  rw [t1] at hp1; rw [t2] at hp2
  rw [std_term F s c z hc hz0 hz1] at hys
  have e1 := fl_err F hF _ _ hp1
  have e2 := fl_err F hF _ _ hp2
  have e3 := fl_err F hF _ _ (show F.fl (.fin (p1 + p2)) = .fin ya from hya)
  have e4 := fl_err F hF _ _ hys
  have hc0 : (0 : Rat) ≤ (c : Rat) := Nat.cast_nonneg c
  have hz0' : (0 : Rat) ≤ (z : Rat) := by exact_mod_cast hz0
  rw [abs_of_nonneg (mul_nonneg hpos.le hc0)] at e1
  have ez : s * ((-z : Int) : Rat) = -((z : Rat) * s) := by push_cast; ring
  rw [ez, abs_neg, abs_of_nonneg (mul_nonneg hz0' hpos.le)] at e2
  have ed : (((c : Int) - z : Int) : Rat) = (c : Rat) - (z : Rat) := by push_cast; ring
  rw [ed] at e4
  have := denote_core F.u F.eta s c z p1 p2 ya ys F.u_nonneg F.eta
    e1 (by rw [mul_comm s (z : Rat)]; exact e2) e3 e4
  linarith

/-- T6 with a representable scale: the two products are rounded with a purely relative error. -/
theorem C15_denotes_same_rep (F : Fmt) (hF : WorkFmt F) (s : Rat) (hpos : 0 < s)
    (hrep : F.Rep s) (c : Nat) (hc : c < 16) (z : Int) (hz0 : 0 ≤ z) (hz1 : z ≤ 15)
    (p1 p2 ya ys : Rat)
    (hp1 : F.mul (.fin s) (.fin (c : Rat)) = .fin p1)
    (hp2 : F.mul (.fin (wrapInt8 (-z))) (.fin s) = .fin p2)
    (hya : F.add (.fin p1) (.fin p2) = .fin ya)
    (hys : affDeq F c (.fin s) z = .fin ys) :
    |ya - ys| ≤ F.u * (s * c + s * z) * (1 + F.u) + 2 * F.u * |s * ((c : Rat) - z)| +
      2 * F.eta := by
  obtain ⟨t1, t2⟩ := awq_terms F s c z hz0 (by omega)
  rw [t1] at hp1; rw [t2] at hp2
  rw [std_term F s c z hc hz0 hz1] at hys
  have e1 := mul_int_err F hF s hrep hpos (c : Int) p1 (by exact_mod_cast hp1)
  have e2 := mul_int_err F hF s hrep hpos (-z) p2 hp2
  have e3 := fl_err F hF _ _ (show F.fl (.fin (p1 + p2)) = .fin ya from hya)
  have e4 := fl_err F hF _ _ hys
  have hc0 : (0 : Rat) ≤ (c : Rat) := Nat.cast_nonneg c
  have hz0' : (0 : Rat) ≤ (z : Rat) := by exact_mod_cast hz0
  have ec : (((c : Int) : Int) : Rat) = (c : Rat) := by push_cast; rfl
  rw [ec, abs_of_nonneg hc0] at e1
  have ez : ((-z : Int) : Rat) = -(z : Rat) := by push_cast; rfl
  rw [ez, abs_neg, abs_of_nonneg hz0', mul_neg] at e2
  have ed : (((c : Int) - z : Int) : Rat) = (c : Rat) - (z : Rat) := by push_cast; ring
  rw [ed] at e4
  have := denote_core F.u F.eta s c z p1 p2 ya ys F.u_nonneg 0
    (by linarith) (by rw [mul_comm (z : Rat) s]; linarith) e3 e4
  linarith

/-- T7 (the repaired defect): the ORIGINAL `qbits_tensor` handed `QBitsTensor` the ungrouped
`[4, 256]` payload where the grouped layout `[4·256/128, 128] = [8, 128]` is required. -/
theorem C15_counterexample_back_ungrouped (p : T Nat) (s z : T FV) :
    (⟨[4, 256], 128, p, s, z⟩ : AwqBits).origBackDataShape ≠ [4 * 256 / 128, 128] := by
  show ([4, 256] : List Nat) ≠ [4 * 256 / 128, 128]
  decide


/-! ### selection of the optimised representation (`QBitsTensor.create`, `optimize`, `_to_copy`) -/

/-- T8: the decision of `QBitsTensor.create`, *as the extractor read it from the source text on this
run* (`Generated.awqCreateConds`), is the closed form `awqSelected`: every conjunct is understood
and their conjunction is the model's.  An edit of the condition breaks this theorem. -/
theorem C15_create_decision_regenerated (c : CreateCfg) : awqSelectedGen c = some (awqSelected c) :=
  awqSelectedGen_eq c

/-- T8: the AWQ representation is selected exactly for int4, float16, first axis, groups of 128,
rank 2, on a CUDA device of major capability at least 8. -/
theorem C15_create_selects_iff (c : CreateCfg) :
    createOutcome c ≠ .ok .qbits ↔ (c.qtype = "qint4" ∧ c.dtype = "f16" ∧ c.axis = 0 ∧
      c.groupSize = 128 ∧ c.size.length = 2 ∧ c.devType = "cuda" ∧ 8 ≤ c.capMajor) := by
  rw [← awqSelected_iff]
  unfold createOutcome
  cases awqSelected c <;> simp
  split <;> simp

/-- T8: the text of `_to_copy` — the one decision of this family that cannot be executed without a
GPU — is what the model assumes: a subclass instance is converted back before it changes device type,
and the result is built by `create`.  (`optimize` is tied behaviourally: `optimize15`.) -/
theorem C15_to_copy_text :
    Generated.awqToCopyConds.getD 1 "" = "type(t) != QBitsTensor | t.device.type != device.type => t = t.qbits_tensor()" ∧
    Generated.awqToCopyConds.getLast? = some "return QBitsTensor.create" := by decide

/-- T9: off CUDA — in particular after `_to_copy` to the CPU, i.e. when leaving the GPU or
serializing — the result is always the standard representation. -/
theorem C15_create_off_cuda_is_standard (c : CreateCfg) (h : c.devType ≠ "cuda") :
    createOutcome c = .ok .qbits := create_off_cuda c h

theorem C15_to_copy_off_cuda_is_standard (c : CreateCfg) (target : String) (cap : Nat)
    (h : target ≠ "cuda") : toCopyOutcome c target cap = .ok .qbits :=
  create_off_cuda _ h

/-- T9: a subclass instance that changes device type is converted back first. -/
theorem C15_to_copy_converts_back (c : CreateCfg) (target : String) (h : c.devType ≠ target) :
    toCopyConvertsBack .awq c target = true := by
  simp [toCopyConvertsBack, h]

/-- T10 (partial: rows a multiple of 4): whenever the AWQ representation is selected for a tensor
that is validly grouped (the group size divides the columns) and has a multiple of 4 rows, the
construction is admissible — and `C15_back_conversion`'s divisibility hypotheses hold. -/
theorem C15_create_selected_admissible_partial (c : CreateCfg) (N K : Nat)
    (hsel : awqSelected c = true) (hsize : c.size = [N, K]) (hK : c.groupSize ∣ K) (hN : 4 ∣ N)
    (hN0 : 0 < N) (hK0 : 0 < K) :
    createOutcome c = .ok .awq ∧ 4 ∣ N ∧ 64 ∣ K := by
  refine ⟨create_selected_admissible c N K hsel hsize hK hN hN0 hK0, hN, ?_⟩
  have hg : c.groupSize = 128 := ((awqSelected_iff c).mp hsel).2.2.2.1
  rw [hg] at hK
  omega

/-- T10 at full strength is false: a float16 int4 weight of 6 rows and 128 columns is selected for
the AWQ representation on a capability-8 device although `pack_v2` cannot pack 6 rows. -/
theorem C15_counterexample_create_selects_inadmissible :
    ∃ c : CreateCfg, c.size = [6, 128] ∧ c.groupSize ∣ 128 ∧ awqSelected c = true ∧
      createOutcome c = .raises :=
  ⟨⟨"qint4", "f16", 0, 128, [6, 128], "cuda", 8⟩, rfl, by decide, by decide, by decide⟩

/-- T11: `optimize` is idempotent — optimizing the result again returns the same class. -/
theorem C15_optimize_idempotent (cls : QCls) (c : CreateCfg) (r : QCls)
    (h : optimizeOutcome cls c = .ok r) : optimizeOutcome r c = .ok r := optimize_idem cls c r h

/-- non-vacuity of T10: a [8, 256] weight on a capability-9 device -/
example : createOutcome ⟨"qint4", "f16", 0, 128, [8, 256], "cuda", 9⟩ = .ok .awq ∧ 4 ∣ 8 ∧ 64 ∣ 256 :=
  C15_create_selected_admissible_partial _ 8 256 (by decide) rfl (by decide) (by decide) (by decide) (by decide)

/-! ### non-vacuity: concrete instances satisfy the hypotheses
(`c15Sample` is the `[4, 64]` matrix with codes `i % 16`, see `Proofs/C15/Sample.lean`) -/

/-- T1 on the sample, both orders -/
example : ∀ reorder, awqUnpackV1 reorder (awqPackV1 reorder c15Sample) = c15Sample :=
  C15_v1_roundtrip c15Sample 4 64 rfl (by simp [c15Sample]) (by decide) c15Sample_lt

/-- T3 on the sample -/
example : awqUnpackV2 (awqPackV2 c15Sample) = c15Sample :=
  C15_v2_roundtrip c15Sample 4 64 rfl (by simp [c15Sample]) (by decide) (by decide) c15Sample_lt

/-- T4 at float16: `s = 1/4`, `z = 7` -/
example : toInt8 ((f16.div (f16.mul (.fin (wrapInt8 (-7))) (.fin (1 / 4))).neg (.fin (1 / 4))).round)
    = 7 :=
  C15_zeropoint_recovered_nonneg f16 (by simp [WorkFmt]) (1 / 4) (by norm_num)
    (repB_sound f16 _ (by decide +kernel)) 7 (by decide) (by decide)
    (by have := work_maxFin_ge f16 (by simp); linarith)

/-- T5 at float16 on the sample: one group of 64 per row, scales 1/4, zero-points 7 -/
example : (AwqBits.ofQBits f16 ⟨4, true, some 64, [4, 64], c15Sample, ⟨[4, 1], #[.fin (1 / 4), .fin (1 / 4), .fin (1 / 4), .fin (1 / 4)]⟩,
      ⟨[4, 1], #[7, 7, 7, 7]⟩⟩).toQBits f16 4 =
    ⟨4, true, some 64, [4, 64], c15Sample, ⟨[4, 1], #[.fin (1 / 4), .fin (1 / 4), .fin (1 / 4), .fin (1 / 4)]⟩,
      ⟨[4, 1], #[7, 7, 7, 7]⟩⟩ := by
  refine C15_back_conversion f16 (by simp [WorkFmt]) _ 4 64 64 rfl rfl rfl rfl (by decide) (by decide)
    (by decide) rfl (by simp [c15Sample]) c15Sample_lt rfl rfl ?_ rfl rfl ?_
  · intro i hi
    have hi' : i < 4 := hi
    refine ⟨1 / 4, ?_, by norm_num, repB_sound f16 _ (by decide +kernel),
      by have := work_maxFin_ge f16 (by simp); linarith⟩
    have : i = 0 ∨ i = 1 ∨ i = 2 ∨ i = 3 := by omega
    rcases this with rfl | rfl | rfl | rfl <;> rfl
  · intro i hi
    have hi' : i < 4 := hi
    have : i = 0 ∨ i = 1 ∨ i = 2 ∨ i = 3 := by omega
    rcases this with rfl | rfl | rfl | rfl <;> decide

/-- T6 at float16, `s = 5464`, `c = 1`, `z = 6`: the two dequantizers differ by 32 (two units in
the last place of the result); the hypotheses of T6 hold. -/
example :
    f16.mul (.fin 5464) (.fin ((1 : Nat) : Rat)) = .fin 5464 ∧
    f16.mul (.fin (wrapInt8 (-6))) (.fin 5464) = .fin (-32768) ∧
    f16.add (.fin 5464) (.fin (-32768)) = .fin (-27296) ∧
    affDeq f16 1 (.fin 5464) 6 = .fin (-27328) := by
  decide +kernel

end Quanto

import Quanto.Spec.C04
namespace Quanto

/-- placeholder until the packing proofs land -/
theorem C04_cpp_table_4 : Generated.cppUnpackTable 4 = [(15, 0), (240, 4)] := by decide

end Quanto

/-
C04 — sub-byte packing (`pack_weights` / `unpack` / `PackedTensor`) is lossless, dense and
identical across kernels and routes.  Helper lemmas live in `Proofs/C04/Lemmas.lean`.
-/
import Proofs.C04.Lemmas
namespace Quanto

/-! ### T1 — density -/

/-- the payload has exactly `ceil(R * bits / 8)` rows and the original trailing dimensions -/
theorem C04_dense (bits : Nat) (hb : bits = 2 ∨ bits = 4) (t : T Nat) :
    (packWeights bits t).shape = ceilDiv (t.shape.headD 0 * bits) 8 :: t.shape.tail := by
  rw [packWeights_shape, rowDim_eq_ceilDiv bits _ hb]

/-- the payload holds exactly as many bytes as its shape says -/
theorem C04_dense_size (bits : Nat) (t : T Nat) :
    (packWeights bits t).data.size = prod (packWeights bits t).shape := by
  unfold packWeights
  simp only []
  rw [T.size_ofFn, T.shape_ofFn]

/-! ### T2 — one column survives pack + unpack, for every row count -/

theorem C04_roundtrip_column (bits : Nat) (hb : bits = 2 ∨ bits = 4) :
    ∀ R, R ≥ 1 → ∀ col : Nat → Nat, (∀ j, j < R → col j < 2 ^ bits) → ∀ j, j < R →
      (packByte bits R col (j % rowDim bits R) &&& pyMask bits (j / rowDim bits R))
        >>> (bits * (j / rowDim bits R)) = col j :=
  fun R _ col h j hj => roundtrip_column bits hb R col h j hj

/-- the loop bound `it = min(values_per_item, R // row_dim + 1)` of `pack_weights` reaches every row -/
theorem C04_loop_bound_sufficient (bits : Nat) (hb : bits = 2 ∨ bits = 4) (R : Nat) :
    R ≤ packIt bits R * rowDim bits R :=
  packIt_mul_rowDim_ge bits R hb

/-! ### T3 — whole tensor round trip through `PackedTensor` -/

/-- `_hR` is part of the stated well-formedness contract; the proof does not need it
(a tensor with zero rows is empty and round-trips trivially). -/
theorem C04_roundtrip (bits : Nat) (hb : bits = 2 ∨ bits = 4) (t : T Nat)
    (hne : t.shape ≠ []) (hwf : t.data.size = prod t.shape) (_hR : 1 ≤ t.shape.headD 0)
    (hv : ∀ i, i < t.data.size → t.data[i]! < 2 ^ bits)
    (extEnabled : Bool) (ext : ExtOutcome) :
    (Packed.pack bits t).unpack extEnabled ext = t := by
  unfold Packed.unpack Packed.pack
  simp only []
  rw [quantoUnpack_eq_unpackPy bits hb _ _ _ (packWeights_get_lt bits t)]
  exact narrow_unpackPy_packWeights bits hb t hne hwf (get_lt_of_data bits t hv)

/-! ### T4 / T5 — kernels and routes agree on every byte tensor -/

theorem C04_kernels_agree (bits : Nat) (hb : bits = 2 ∨ bits = 4) :
    ∀ p : T Nat, (∀ i, p.get i < 256) → unpackCpp bits p = unpackPy bits p :=
  fun p hp => unpackCpp_eq_unpackPy bits hb p hp

theorem C04_routes_agree (bits : Nat) (hb : bits = 2 ∨ bits = 4) :
    ∀ (e : Bool) (x : ExtOutcome) (p : T Nat), (∀ i, p.get i < 256) →
      quantoUnpack e x bits p = unpackPy bits p :=
  fun e x p hp => quantoUnpack_eq_unpackPy bits hb e x p hp

/-! ### T6 — `__torch_dispatch__` -/

theorem C04_dispatch_other : ∀ (p : Packed) (f : T Nat → T Nat),
    p.dispatch (.other f) = .plain (f p.unpack) :=
  fun _ _ => rfl

/-- several packed operands (e.g. `torch.equal(p, q)`, `p + q`, `cat([p, q])`): the op sees the unpacked
values of each -/
theorem C04_dispatch_nary (ps : List Packed) (f : List (T Nat) → T Nat) :
    Packed.dispatchN ps f = .plain (f (ps.map fun p => p.unpack)) := rfl

/-- … and nothing else: operands with the same unpacked values give the same result -/
theorem C04_dispatch_nary_values_only (ps qs : List Packed) (f : List (T Nat) → T Nat)
    (h : (ps.map fun p => p.unpack) = qs.map fun p => p.unpack) :
    Packed.dispatchN ps f = Packed.dispatchN qs f := by
  simp only [Packed.dispatchN, h]

/-- the payload alone does not determine the values: three 2-bit rows and the same rows followed by a zero
row have the same payload, so an op must not be evaluated on the payloads of its operands -/
theorem C04_same_payload_different_values :
    let p := Packed.pack 2 ⟨[3], #[1, 2, 3]⟩
    let q := Packed.pack 2 ⟨[4], #[1, 2, 3, 0]⟩
    p.data.data = q.data.data ∧ p.data.shape = q.data.shape ∧ p.bits = q.bits ∧
      p.unpack.shape ≠ q.unpack.shape := by
  decide +kernel

theorem C04_dispatch_detach : ∀ p : Packed, ∃ q,
    p.dispatch .detach = .packed q ∧ q.unpack = p.unpack ∧ q.size = p.size ∧ q.bits = p.bits :=
  fun p => ⟨⟨p.bits, p.size, p.data⟩, rfl, rfl, rfl, rfl⟩

theorem C04_dispatch_move : ∀ p : Packed, ∃ q,
    p.dispatch (.toCopy true) = .packed q ∧ q.unpack = p.unpack ∧ q.data = p.data :=
  fun p => ⟨⟨p.bits, p.size, p.data⟩, rfl, rfl, rfl⟩

theorem C04_dispatch_dtype_refused : ∀ p : Packed,
    (match p.dispatch (.toCopy false) with | .valueError => True | _ => False) :=
  fun _ => trivial

/-! ### T7 — the executable predicate accepts the model's own outputs -/

theorem C04_spec_ok (bits : Nat) (hb : bits = 2 ∨ bits = 4) (t : T Nat)
    (hne : t.shape ≠ []) (hwf : t.data.size = prod t.shape) (hR : 1 ≤ t.shape.headD 0)
    (hv : ∀ i, i < t.data.size → t.data[i]! < 2 ^ bits) :
    specC04 bits t (packWeights bits t) ((Packed.pack bits t).unpack)
      [unpackPy bits (packWeights bits t), unpackCpp bits (packWeights bits t),
       quantoUnpack true .returns bits (packWeights bits t),
       quantoUnpack false .returns bits (packWeights bits t)] = .ok := by
  have hrt := C04_roundtrip bits hb t hne hwf hR hv true .raises
  have hlt := packWeights_get_lt bits t
  have hbits : (bits == 2 || bits == 4) = true := by rcases hb with rfl | rfl <;> rfl
  have hwf' : t.wf = true := by simp [T.wf, hwf]
  have hany : t.data.any (· ≥ 2 ^ bits) = false := by
    rw [Array.any_eq_false]
    intro i hi
    have := hv i hi
    rw [getElem!_pos t.data i hi] at this
    simpa using this
  have hemp : t.shape.isEmpty = false := by
    cases h : t.shape with
    | nil => exact absurd h hne
    | cons a as => rfl
  have hpwf : (packWeights bits t).wf = true := by simp [T.wf, C04_dense_size]
  unfold specC04
  rw [hrt, unpackCpp_eq_unpackPy bits hb _ hlt, quantoUnpack_eq_unpackPy bits hb _ _ _ hlt,
    quantoUnpack_eq_unpackPy bits hb _ _ _ hlt]
  simp [hbits, hwf', hany, hemp, hpwf, C04_dense bits hb t]

/-! ### non-vacuity -/

example : (Packed.pack 4 ⟨[3, 2], #[1, 2, 3, 4, 5, 6]⟩).unpack true .returns = ⟨[3, 2], #[1, 2, 3, 4, 5, 6]⟩ :=
  C04_roundtrip 4 (Or.inr rfl) ⟨[3, 2], #[1, 2, 3, 4, 5, 6]⟩ (by decide) (by decide) (by decide)
    (by decide) true .returns

example : (Packed.pack 2 ⟨[5, 1], #[3, 0, 1, 2, 3]⟩).unpack false .raises = ⟨[5, 1], #[3, 0, 1, 2, 3]⟩ :=
  C04_roundtrip 2 (Or.inl rfl) ⟨[5, 1], #[3, 0, 1, 2, 3]⟩ (by decide) (by decide) (by decide)
    (by decide) false .raises

example : specC04 4 ⟨[3, 2], #[1, 2, 3, 4, 5, 6]⟩ (packWeights 4 ⟨[3, 2], #[1, 2, 3, 4, 5, 6]⟩)
    ((Packed.pack 4 ⟨[3, 2], #[1, 2, 3, 4, 5, 6]⟩).unpack)
    [unpackPy 4 (packWeights 4 ⟨[3, 2], #[1, 2, 3, 4, 5, 6]⟩),
     unpackCpp 4 (packWeights 4 ⟨[3, 2], #[1, 2, 3, 4, 5, 6]⟩),
     quantoUnpack true .returns 4 (packWeights 4 ⟨[3, 2], #[1, 2, 3, 4, 5, 6]⟩),
     quantoUnpack false .returns 4 (packWeights 4 ⟨[3, 2], #[1, 2, 3, 4, 5, 6]⟩)] = .ok :=
  C04_spec_ok 4 (Or.inr rfl) ⟨[3, 2], #[1, 2, 3, 4, 5, 6]⟩ (by decide) (by decide) (by decide) (by decide)

/-- the hypothesis of `C04_kernels_agree` / `C04_routes_agree` is met by every payload `pack_weights` produces -/
example (bits : Nat) (t : T Nat) : ∀ i, (packWeights bits t).get i < 256 := packWeights_get_lt bits t

end Quanto

import Quanto.Serial
namespace Quanto

/-- placeholder until the serialization proofs land -/
theorem C10_none_roundtrip : PyMeta.parse PyMeta.none.str = some .none := by decide

end Quanto

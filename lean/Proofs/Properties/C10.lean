/-
C10 — serialization round trip.

"The state_dict of any quantized model contains only plain tensors and strings; loading it yields
a model with identical weight codes, scales, zero-points, qtypes and activation scales; saving
again gives an equal state_dict."

Layers (helpers in `Proofs/C10/`):
* `Str.lean`  : `String.splitOn ","`, `String.trimAscii` characterised on `List Char`;
* `Meta.lean` : `PyMeta.parse (PyMeta.str v) = some v` for every `v`;
* `Dict.lean` : `sdGet` lookup lemmas, `QModuleSer.WellFormed`.
-/
import Proofs.C10.Dict
import Proofs.C10.Model
import Proofs.C10.Dotted
namespace Quanto
open Quanto.C10

/-! ### T1/T2 : the metadata strings -/

/-- digit level fact: Python/Lean `str` of an int is read back as the same int -/
theorem C10_int_roundtrip (n : Int) : (toString n).toInt? = some n := by
  rw [Int.toString_eq_repr]; exact Int.toInt?_repr n

/-- kept from the first version of this file -/
theorem C10_none_roundtrip : PyMeta.parse PyMeta.none.str = some .none := by decide

/-- `ast.literal_eval (str v) = v` for every int, `None`, every list and every tuple of ints
(including `[]`, `()` and the one-element tuple `(x,)`) -/
theorem C10_meta_parse (v : PyMeta) : PyMeta.parse v.str = some v := meta_parse v

/-! ### T3 : key sets -/

theorem C10_qbytes_keys (pre : String) (q : QBytesSer) :
    (q.flatten pre).map (·.1) =
      [pre ++ "_data", pre ++ "_scale", pre ++ "qtype", pre ++ "axis", pre ++ "size",
       pre ++ "stride"] := rfl

theorem C10_packed_keys (pre : String) (p : PackedMeta) :
    (p.flatten pre).map (·.1) =
      [pre ++ "_data", pre ++ "bits", pre ++ "size", pre ++ "stride"] := rfl

theorem C10_qbits_keys (pre : String) (q : QBitsSer) :
    (q.flatten pre).map (·.1) =
      [pre ++ "_data._data", pre ++ "_data.bits", pre ++ "_data.size", pre ++ "_data.stride",
       pre ++ "_scale", pre ++ "_zeropoint", pre ++ "qtype", pre ++ "axis", pre ++ "group_size",
       pre ++ "size", pre ++ "stride"] := by
  simp [QBitsSer.flatten, PackedMeta.flatten, String.append_assoc]


/-- key comparison reduces to comparing the suffixes after the common prefix -/
theorem C10_key_inj (pre a b : String) : pre ++ a = pre ++ b ↔ a = b :=
  String.append_right_inj pre

theorem C10_keys_distinct_qbytes (pre : String) (q : QBytesSer) :
    ((q.flatten pre).map (·.1)).Nodup := by
  rw [C10_qbytes_keys]; simp

theorem C10_keys_distinct_packed (pre : String) (p : PackedMeta) :
    ((p.flatten pre).map (·.1)).Nodup := by
  rw [C10_packed_keys]; simp

theorem C10_keys_distinct_qbits (pre : String) (q : QBitsSer) :
    ((q.flatten pre).map (·.1)).Nodup := by
  rw [C10_qbits_keys]; simp

/-! ### T4 : tensor-level round trips -/

theorem C10_qbytes_roundtrip_in_context (pre : String) (q : QBytesSer) (before after : StateDict)
    (h : ∀ e ∈ before, e.1 ∉ (q.flatten pre).map (·.1)) :
    QBytesSer.unflatten pre (before ++ q.flatten pre ++ after) = some q := by
  rw [C10_qbytes_keys] at h
  have hk : ∀ k ∈ [pre ++ "_data", pre ++ "_scale", pre ++ "qtype", pre ++ "axis", pre ++ "size",
      pre ++ "stride"], sdGet (before ++ q.flatten pre ++ after) k = sdGet (q.flatten pre ++ after) k := by
    intro k hk
    rw [List.append_assoc]
    exact sdGet_append_of_not_mem _ _ _ (fun e he hek => h e he (hek ▸ hk))
  unfold QBytesSer.unflatten
  simp only [hk _ (by simp : pre ++ "_data" ∈ _), hk _ (by simp : pre ++ "_scale" ∈ _),
    hk _ (by simp : pre ++ "qtype" ∈ _), hk _ (by simp : pre ++ "axis" ∈ _),
    hk _ (by simp : pre ++ "size" ∈ _), hk _ (by simp : pre ++ "stride" ∈ _)]
  cases q with | mk d s qt ax sz st =>
  cases ax <;>
    simp [QBytesSer.flatten, leafTensor, leafMeta, meta_parse, metaList, metaOptInt, optInt]

theorem C10_qbytes_roundtrip (pre : String) (q : QBytesSer) :
    QBytesSer.unflatten pre (q.flatten pre) = some q := by
  simpa using C10_qbytes_roundtrip_in_context pre q [] [] (by simp)


theorem C10_packed_roundtrip_in_context (pre : String) (p : PackedMeta) (before after : StateDict)
    (h : ∀ e ∈ before, e.1 ∉ (p.flatten pre).map (·.1)) :
    PackedMeta.unflatten pre (before ++ p.flatten pre ++ after) = some p := by
  rw [C10_packed_keys] at h
  have hk : ∀ k ∈ [pre ++ "_data", pre ++ "bits", pre ++ "size", pre ++ "stride"],
      sdGet (before ++ p.flatten pre ++ after) k = sdGet (p.flatten pre ++ after) k := by
    intro k hk
    rw [List.append_assoc]
    exact sdGet_append_of_not_mem _ _ _ (fun e he hek => h e he (hek ▸ hk))
  unfold PackedMeta.unflatten
  simp only [hk _ (by simp : pre ++ "_data" ∈ _), hk _ (by simp : pre ++ "bits" ∈ _),
    hk _ (by simp : pre ++ "size" ∈ _), hk _ (by simp : pre ++ "stride" ∈ _)]
  cases p with | mk d b sz st =>
  simp [PackedMeta.flatten, leafTensor, leafMeta, meta_parse, metaList]

theorem C10_packed_roundtrip (pre : String) (p : PackedMeta) :
    PackedMeta.unflatten pre (p.flatten pre) = some p := by
  simpa using C10_packed_roundtrip_in_context pre p [] [] (by simp)

theorem C10_qbits_roundtrip_in_context (pre : String) (q : QBitsSer) (before after : StateDict)
    (h : ∀ e ∈ before, e.1 ∉ (q.flatten pre).map (·.1)) :
    QBitsSer.unflatten pre (before ++ q.flatten pre ++ after) = some q := by
  rw [C10_qbits_keys] at h
  have hk : ∀ k ∈ [pre ++ "_data._data", pre ++ "_data.bits", pre ++ "_data.size",
      pre ++ "_data.stride", pre ++ "_scale", pre ++ "_zeropoint", pre ++ "qtype", pre ++ "axis",
      pre ++ "group_size", pre ++ "size", pre ++ "stride"],
      sdGet (before ++ q.flatten pre ++ after) k = sdGet (q.flatten pre ++ after) k := by
    intro k hk
    rw [List.append_assoc]
    exact sdGet_append_of_not_mem _ _ _ (fun e he hek => h e he (hek ▸ hk))
  unfold QBitsSer.unflatten PackedMeta.unflatten
  simp only [String.append_assoc, String.reduceAppend]
  simp only [hk _ (by simp : pre ++ "_data._data" ∈ _), hk _ (by simp : pre ++ "_data.bits" ∈ _),
    hk _ (by simp : pre ++ "_data.size" ∈ _), hk _ (by simp : pre ++ "_data.stride" ∈ _),
    hk _ (by simp : pre ++ "_scale" ∈ _), hk _ (by simp : pre ++ "_zeropoint" ∈ _),
    hk _ (by simp : pre ++ "qtype" ∈ _), hk _ (by simp : pre ++ "axis" ∈ _),
    hk _ (by simp : pre ++ "group_size" ∈ _),
    hk _ (by simp : pre ++ "size" ∈ _), hk _ (by simp : pre ++ "stride" ∈ _)]
  cases q with | mk p s z qt ax gs sz st =>
  cases p with | mk d b psz pst =>
  cases ax <;> cases gs <;>
    simp [QBitsSer.flatten, PackedMeta.flatten, String.append_assoc, leafTensor, leafMeta,
      meta_parse, metaList, metaOptInt, optInt]

theorem C10_qbits_roundtrip (pre : String) (q : QBitsSer) :
    QBitsSer.unflatten pre (q.flatten pre) = some q := by
  simpa using C10_qbits_roundtrip_in_context pre q [] [] (by simp)


/-! ### T5/T6 : module level -/

/-- the keys written by `QModuleMixin._save_to_state_dict` -/
theorem C10_module_keys (pre : String) (m : QModuleSer) :
    (m.save pre).map (·.1) =
      (match m.weight with
       | .float _ => [pre ++ "weight"]
       | .qbytes _ => [pre ++ "weight._data", pre ++ "weight._scale", pre ++ "weight.qtype",
           pre ++ "weight.axis", pre ++ "weight.size", pre ++ "weight.stride"]
       | .qbits _ => [pre ++ "weight._data._data", pre ++ "weight._data.bits",
           pre ++ "weight._data.size", pre ++ "weight._data.stride", pre ++ "weight._scale",
           pre ++ "weight._zeropoint", pre ++ "weight.qtype", pre ++ "weight.axis",
           pre ++ "weight.group_size", pre ++ "weight.size", pre ++ "weight.stride"]) ++
      (if m.bias.isSome then [pre ++ "bias"] else []) ++
      [pre ++ "input_scale", pre ++ "output_scale", pre ++ "weight_qtype",
       pre ++ "activation_qtype"] := by
  cases m with | mk w b i o wq aq =>
  cases w <;> cases b <;>
    simp [QModuleSer.save, C10_qbytes_keys, C10_qbits_keys, String.append_assoc]

theorem C10_keys_distinct_module (pre : String) (m : QModuleSer) :
    ((m.save pre).map (·.1)).Nodup := by
  rw [C10_module_keys]
  cases m with | mk w b i o wq aq =>
  cases w <;> cases b <;> simp


/-- what the module-level lookups find in a saved module -/
theorem C10_module_lookup (pre : String) (m : QModuleSer) :
    sdGet (m.save pre) (pre ++ "weight_qtype") = some (.str (qtStr m.weightQtype)) ∧
    sdGet (m.save pre) (pre ++ "activation_qtype") = some (.str (qtStr m.activationQtype)) ∧
    sdGet (m.save pre) (pre ++ "input_scale") = some (.tensor m.inputScale) ∧
    sdGet (m.save pre) (pre ++ "output_scale") = some (.tensor m.outputScale) ∧
    sdGet (m.save pre) (pre ++ "bias") = m.bias.map .tensor ∧
    sdGet (m.save pre) (pre ++ "weight") =
      (match m.weight with | .float r => some (.tensor r) | _ => none) := by
  cases m with | mk w b i o wq aq =>
  cases w <;> cases b <;>
    simp [QModuleSer.save, QBytesSer.flatten, QBitsSer.flatten, PackedMeta.flatten,
      String.append_assoc]

/-- loading what was saved gives the same module back: identical weight (codes, scale,
zero-point, qtype, axis, group size, size, stride), bias, activation scales and qtypes -/
theorem C10_module_roundtrip (pre : String) (m : QModuleSer) (wf : m.WellFormed) :
    QModuleSer.load pre m.bias.isSome (m.save pre) = some m := by
  obtain ⟨hwq, haq, hbits, hbytes⟩ := wf
  obtain ⟨l1, l2, l3, l4, l5, l6⟩ := C10_module_lookup pre m
  unfold QModuleSer.load
  rw [l1, l2, l3, l4, l5, l6]
  cases m with | mk w b i o wq aq =>
  simp only at hwq haq hbits hbytes ⊢
  rw [strQt_qtStr _ hwq, strQt_qtStr _ haq]
  cases w with
  | float r => cases b <;> simp [leafTensor]
  | qbytes q =>
    obtain ⟨t, rfl, ht2, ht4⟩ := hbytes q rfl
    have hU : QBytesSer.unflatten (pre ++ "weight.")
        (QModuleSer.save pre ⟨.qbytes q, b, i, o, some t, aq⟩) = some q := by
      simpa [QModuleSer.save, List.append_assoc] using
        C10_qbytes_roundtrip_in_context (pre ++ "weight.") q [] _ (by simp)
    cases b <;> simp [leafTensor, hU, ht2, ht4]
  | qbits q =>
    have hU : QBitsSer.unflatten (pre ++ "weight.")
        (QModuleSer.save pre ⟨.qbits q, b, i, o, wq, aq⟩) = some q := by
      simpa [QModuleSer.save, List.append_assoc] using
        C10_qbits_roundtrip_in_context (pre ++ "weight.") q [] _ (by simp)
    rcases hbits q rfl with rfl | rfl <;> cases b <;> simp [leafTensor, hU]

/-- load then save reproduces the state_dict -/
theorem C10_resave (pre : String) (m : QModuleSer) (wf : m.WellFormed) (m' : QModuleSer)
    (h : QModuleSer.load pre m.bias.isSome (m.save pre) = some m') :
    m'.save pre = m.save pre := by
  rw [C10_module_roundtrip pre m wf] at h
  cases h; rfl

theorem C10_qtStr_strQt (s : String) : qtStr (strQt s) = s := by
  unfold strQt
  split
  · next h => rw [h]; rfl
  · rfl

/-- a `QBitsTensor` cannot be read out of the entries of a `QBytesTensor` … -/
theorem C10_qbits_unflatten_qbytes (pre : String) (q : QBytesSer) (rest : StateDict)
    (hr : sdGet rest (pre ++ "_zeropoint") = none) :
    QBitsSer.unflatten pre (q.flatten pre ++ rest) = none := by
  simp [QBitsSer.unflatten, PackedMeta.unflatten, QBytesSer.flatten, String.append_assoc,
    leafTensor, hr]

/-- … nor a `QBytesTensor` out of the entries of a `QBitsTensor` -/
theorem C10_qbytes_unflatten_qbits (pre : String) (q : QBitsSer) (rest : StateDict)
    (hr : sdGet rest (pre ++ "_data") = none) :
    QBytesSer.unflatten pre (q.flatten pre ++ rest) = none := by
  simp [QBytesSer.unflatten, QBitsSer.flatten, PackedMeta.flatten, String.append_assoc,
    leafTensor, hr]

/-- `C10_resave` needs no well-formedness: whenever loading a saved module succeeds (into a module
whose bias-presence is not *less* than the saved one), saving the result reproduces the
state_dict exactly. -/
theorem C10_resave_strong (pre : String) (m : QModuleSer) (b : Bool) (m' : QModuleSer)
    (hb : b = false → m.bias = none)
    (h : QModuleSer.load pre b (m.save pre) = some m') :
    m'.save pre = m.save pre := by
  obtain ⟨l1, l2, l3, l4, l5, l6⟩ := C10_module_lookup pre m
  unfold QModuleSer.load at h
  rw [l1, l2, l3, l4, l5, l6] at h
  clear l1 l2 l3 l4 l5 l6
  cases m with | mk w bi i o wq aq =>
  simp only at hb h
  cases w with
  | float r =>
    cases b <;> cases bi <;> simp [leafTensor] at hb h <;> subst h <;>
      simp [QModuleSer.save, C10_qtStr_strQt]
  | qbytes q =>
    cases hq : strQt (qtStr wq) with
    | none => simp [hq] at h
    | some t =>
      have hqs : qtStr wq = t := by rw [← C10_qtStr_strQt (qtStr wq), hq]; rfl
      have hU : QBytesSer.unflatten (pre ++ "weight.")
          (QModuleSer.save pre ⟨.qbytes q, bi, i, o, wq, aq⟩) = some q := by
        simpa [QModuleSer.save, List.append_assoc] using
          C10_qbytes_roundtrip_in_context (pre ++ "weight.") q [] _ (by simp)
      have hV : QBitsSer.unflatten (pre ++ "weight.")
          (QModuleSer.save pre ⟨.qbytes q, bi, i, o, wq, aq⟩) = none := by
        simp only [QModuleSer.save, List.append_assoc]
        apply C10_qbits_unflatten_qbytes
        cases bi <;> simp [String.append_assoc]
      rw [hq] at h
      by_cases ht : t = "qint2" ∨ t = "qint4" <;>
      cases b <;> cases bi <;> simp [hU, hV, ht, leafTensor] at hb h <;> subst h <;>
        simp [QModuleSer.save, C10_qtStr_strQt, hqs, qtStr_some]
  | qbits q =>
    cases hq : strQt (qtStr wq) with
    | none => simp [hq] at h
    | some t =>
      have hqs : qtStr wq = t := by rw [← C10_qtStr_strQt (qtStr wq), hq]; rfl
      have hU : QBitsSer.unflatten (pre ++ "weight.")
          (QModuleSer.save pre ⟨.qbits q, bi, i, o, wq, aq⟩) = some q := by
        simpa [QModuleSer.save, List.append_assoc] using
          C10_qbits_roundtrip_in_context (pre ++ "weight.") q [] _ (by simp)
      have hV : QBytesSer.unflatten (pre ++ "weight.")
          (QModuleSer.save pre ⟨.qbits q, bi, i, o, wq, aq⟩) = none := by
        simp only [QModuleSer.save, List.append_assoc]
        apply C10_qbytes_unflatten_qbits
        cases bi <;> simp [String.append_assoc]
      rw [hq] at h
      by_cases ht : t = "qint2" ∨ t = "qint4" <;>
      cases b <;> cases bi <;> simp [hU, hV, ht, leafTensor] at hb h <;> subst h <;>
        simp [QModuleSer.save, C10_qtStr_strQt, hqs, qtStr_some]

/-- `str` is injective on the metadata values (corollary of `C10_meta_parse`) -/
theorem C10_meta_str_injective (v w : PyMeta) (h : v.str = w.str) : v = w := by
  have := C10_meta_parse v
  rw [h, C10_meta_parse w] at this
  exact (Option.some.inj this).symm

/-! ### non-vacuity: concrete values

`decide` below is kernel evaluation of a closed term — these are tests of the definitions and of
the satisfiability of the hypotheses, not the theorems. `PyMeta.parse` itself does not reduce in
the kernel (`String.splitOn` is defined by well-founded recursion), so the parse examples
instantiate `C10_meta_parse`; the literal on the left is checked against `PyMeta.str` by `rfl`. -/

example : (PyMeta.list [4096, 11008]).str = "[4096, 11008]" := by decide
example : (PyMeta.tuple [11008, 1]).str = "(11008, 1)" := by decide
example : (PyMeta.tuple [128]).str = "(128,)" := by decide
example : (PyMeta.tuple []).str = "()" := by decide
example : (PyMeta.list []).str = "[]" := by decide
example : (PyMeta.int (-1)).str = "-1" := by decide
example : PyMeta.parse "[4096, 11008]" = some (.list [4096, 11008]) := C10_meta_parse (.list [4096, 11008])
example : PyMeta.parse "(11008, 1)" = some (.tuple [11008, 1]) := C10_meta_parse (.tuple [11008, 1])
example : PyMeta.parse "(128,)" = some (.tuple [128]) := C10_meta_parse (.tuple [128])
example : PyMeta.parse "()" = some (.tuple []) := C10_meta_parse (.tuple [])
example : PyMeta.parse "[]" = some (.list []) := C10_meta_parse (.list [])
example : PyMeta.parse "-1" = some (.int (-1)) :=
  (by decide : (PyMeta.int (-1)).str = "-1") ▸ C10_meta_parse (.int (-1))
example : PyMeta.parse "128" = some (.int 128) := C10_meta_parse (.int 128)

/-- the state_dict entries of a group-wise int4 weight (sizes [4096, 11008], stride (11008, 1),
axis 0, group 128) -/
example : sampleQBits.flatten "w." =
  [("w._data._data", .tensor "packed"), ("w._data.bits", .str "4"),
   ("w._data.size", .str "[2048, 11008]"), ("w._data.stride", .str "(11008, 1)"),
   ("w._scale", .tensor "scale"), ("w._zeropoint", .tensor "zeropoint"), ("w.qtype", .str "qint4"),
   ("w.axis", .str "0"), ("w.group_size", .str "128"), ("w.size", .str "[4096, 11008]"),
   ("w.stride", .str "[11008, 1]")] := by decide

example : QBitsSer.unflatten "w." (sampleQBits.flatten "w.") = some sampleQBits :=
  C10_qbits_roundtrip _ _

example : (sampleModule4.save "fc.").map (·.1) =
  ["fc.weight._data._data", "fc.weight._data.bits", "fc.weight._data.size",
   "fc.weight._data.stride", "fc.weight._scale", "fc.weight._zeropoint", "fc.weight.qtype",
   "fc.weight.axis", "fc.weight.group_size", "fc.weight.size", "fc.weight.stride", "fc.bias",
   "fc.input_scale", "fc.output_scale", "fc.weight_qtype", "fc.activation_qtype"] := by decide

/-- the hypothesis of `C10_module_roundtrip` is satisfiable (int4 and int8 modules) -/
example : sampleModule4.WellFormed := by constructor <;> simp [sampleModule4]
example : sampleModule8.WellFormed := by constructor <;> simp [sampleModule8]

example : QModuleSer.load "fc." true (sampleModule4.save "fc.") = some sampleModule4 :=
  C10_module_roundtrip "fc." sampleModule4 (by constructor <;> simp [sampleModule4])
example : QModuleSer.load "fc." false (sampleModule8.save "fc.") = some sampleModule8 :=
  C10_module_roundtrip "fc." sampleModule8 (by constructor <;> simp [sampleModule8])

/-! ### the extra hypotheses are needed -/

/-- a qtype literally named `"none"` is read back as `None`: `WellFormed.aq_ne_none` (and
likewise `wq_ne_none`) cannot be dropped from `C10_module_roundtrip` -/
example : QModuleSer.load "fc." false
    (QModuleSer.save "fc." ⟨.float "w", none, "i", "o", none, some "none"⟩) ≠
    some ⟨.float "w", none, "i", "o", none, some "none"⟩ := by decide

/-- a weight kind inconsistent with `weight_qtype` is not loadable at all -/
example : QModuleSer.load "fc." true
    (QModuleSer.save "fc." { sampleModule4 with weightQtype := none }) = none := by decide

/-- loading a state_dict that has a bias into a module without bias drops it: the
`b = false → m.bias = none` hypothesis of `C10_resave_strong` cannot be dropped -/
example : (QModuleSer.load "fc." false
    (QModuleSer.save "fc." ⟨.float "w", some "b", "i", "o", none, none⟩)).map (·.save "fc.") ≠
    some (QModuleSer.save "fc." ⟨.float "w", some "b", "i", "o", none, none⟩) := by decide

/-! ### T7 : whole model

`modelSave ms` is the state_dict of a model whose quantized modules are `ms` (prefix, module), in
`named_modules` order. Loading any module from the *combined* dict gives that module back, provided
the prefixes are pairwise independent (no key under one prefix is a key under another): this is
the case for sibling modules `"fc1."`, `"fc2."`, … (`C10_prefixIndep_of_length_eq` and the concrete
examples below); it fails when a prefix is reused (`C10_counterexample_overlapping_prefixes`). -/

/-- `_load_from_state_dict` reads the dict only at keys under its own prefix -/
theorem C10_load_congr (pre : String) (b : Bool) (sd sd' : StateDict)
    (h : ∀ x, sdGet sd (pre ++ x) = sdGet sd' (pre ++ x)) :
    QModuleSer.load pre b sd = QModuleSer.load pre b sd' := load_congr pre b sd sd' h

/-- every key written by a module under prefix `pre` starts with `pre` -/
theorem C10_module_keys_prefixed (pre : String) (m : QModuleSer) :
    ∀ k ∈ (m.save pre).map (·.1), ∃ x, k = pre ++ x := by
  intro k hk
  obtain ⟨e, he, rfl⟩ := List.mem_map.mp hk
  exact save_keys_prefixed pre m e he

/-- distinct prefixes of equal length are independent -/
theorem C10_prefixIndep_of_length_eq (a b : String) (hl : a.length = b.length) (hne : a ≠ b) :
    ∀ x y, a ++ x ≠ b ++ y := prefixIndep_of_length_eq a b hl hne

/-- in the whole-model dict, the lookups under a module's prefix see exactly that module's entries -/
theorem C10_model_lookup (ms : List (String × QModuleSer))
    (hpre : ms.Pairwise fun a b => ∀ x y, a.1 ++ x ≠ b.1 ++ y)
    (pm : String × QModuleSer) (hm : pm ∈ ms) (x : String) :
    sdGet (modelSave ms) (pm.1 ++ x) = sdGet (pm.2.save pm.1) (pm.1 ++ x) :=
  sdGet_modelSave ms hpre pm hm x

/-- whole-model round trip: every (well-formed) module is recovered from the combined state_dict -/
theorem C10_model_roundtrip (ms : List (String × QModuleSer))
    (hpre : ms.Pairwise fun a b => ∀ x y, a.1 ++ x ≠ b.1 ++ y)
    (pm : String × QModuleSer) (hm : pm ∈ ms) (wf : pm.2.WellFormed) :
    QModuleSer.load pm.1 pm.2.bias.isSome (modelSave ms) = some pm.2 := by
  rw [load_congr pm.1 _ (modelSave ms) (pm.2.save pm.1) (sdGet_modelSave ms hpre pm hm)]
  exact C10_module_roundtrip pm.1 pm.2 wf

/-- all modules at once -/
theorem C10_model_roundtrip_all (ms : List (String × QModuleSer))
    (hpre : ms.Pairwise fun a b => ∀ x y, a.1 ++ x ≠ b.1 ++ y)
    (wf : ∀ pm ∈ ms, pm.2.WellFormed) :
    ms.map (fun pm => QModuleSer.load pm.1 pm.2.bias.isSome (modelSave ms)) =
      ms.map (fun pm => some pm.2) :=
  List.map_congr_left fun pm hm => C10_model_roundtrip ms hpre pm hm (wf pm hm)

/-- non-vacuity: the independence hypothesis holds for the sibling prefixes `"fc1."`, `"fc2."` -/
theorem C10_model_example_indep : [("fc1.", sampleModule4), ("fc2.", sampleModule8)].Pairwise
    fun a b => ∀ x y, a.1 ++ x ≠ b.1 ++ y := by
  simp only [List.pairwise_cons, List.mem_cons, List.mem_nil_iff, or_false, forall_eq,
    List.Pairwise.nil, and_true, false_imp_iff, implies_true]
  exact C10_prefixIndep_of_length_eq "fc1." "fc2." (by decide) (by decide)

/-- a two-layer model (int4 `fc1` with bias, int8 `fc2` without): both modules are recovered from
the combined state_dict -/
example : QModuleSer.load "fc1." true
    (modelSave [("fc1.", sampleModule4), ("fc2.", sampleModule8)]) = some sampleModule4 :=
  C10_model_roundtrip _ C10_model_example_indep ("fc1.", sampleModule4) (by simp)
    (by constructor <;> simp [sampleModule4])
example : QModuleSer.load "fc2." false
    (modelSave [("fc1.", sampleModule4), ("fc2.", sampleModule8)]) = some sampleModule8 :=
  C10_model_roundtrip _ C10_model_example_indep ("fc2.", sampleModule8) (by simp)
    (by constructor <;> simp [sampleModule8])

/-- the combined dict has the keys of both modules, `fc1.*` then `fc2.*` -/
example : (modelSave [("fc1.", sampleModule4), ("fc2.", sampleModule8)]).map (·.1) =
  ["fc1.weight._data._data", "fc1.weight._data.bits", "fc1.weight._data.size",
   "fc1.weight._data.stride", "fc1.weight._scale", "fc1.weight._zeropoint", "fc1.weight.qtype",
   "fc1.weight.axis", "fc1.weight.group_size", "fc1.weight.size", "fc1.weight.stride", "fc1.bias",
   "fc1.input_scale", "fc1.output_scale", "fc1.weight_qtype", "fc1.activation_qtype",
   "fc2.weight._data", "fc2.weight._scale", "fc2.weight.qtype", "fc2.weight.axis",
   "fc2.weight.size", "fc2.weight.stride", "fc2.input_scale", "fc2.output_scale",
   "fc2.weight_qtype", "fc2.activation_qtype"] := by decide

/-- the independence hypothesis cannot be dropped: with the same prefix used twice the second
module is not recovered (the first one's entries shadow it) -/
theorem C10_counterexample_overlapping_prefixes :
    QModuleSer.load "fc." false
      (modelSave [("fc.", ⟨.float "w1", none, "i", "o", none, none⟩),
                  ("fc.", ⟨.float "w2", none, "i", "o", none, none⟩)]) ≠
    some ⟨.float "w2", none, "i", "o", none, none⟩ := by decide

/-- prefixes of different lengths: independent as soon as neither starts with the other -/
theorem C10_prefixIndep_of_not_prefix (a b : String) (h1 : ¬ a.toList <+: b.toList)
    (h2 : ¬ b.toList <+: a.toList) : ∀ x y, a ++ x ≠ b ++ y :=
  prefixIndep_of_not_prefix a b h1 h2

/-- non-vacuity with prefixes of different lengths and a common stem ("fc1." / "fc10." / a nested path) -/
example : [("fc1.", sampleModule4), ("fc10.", sampleModule8), ("block.0.fc1.", sampleModule4)].Pairwise
    fun a b => ∀ x y, a.1 ++ x ≠ b.1 ++ y := by
  have h12 := C10_prefixIndep_of_not_prefix "fc1." "fc10." (by decide) (by decide)
  have h13 := C10_prefixIndep_of_not_prefix "fc1." "block.0.fc1." (by decide) (by decide)
  have h23 := C10_prefixIndep_of_not_prefix "fc10." "block.0.fc1." (by decide) (by decide)
  simp only [List.pairwise_cons, List.mem_cons, List.not_mem_nil, or_false, forall_eq_or_imp, forall_eq,
    List.Pairwise.nil, and_true]
  exact ⟨⟨h12, h13⟩, h23, fun _ h => nomatch h⟩

/-! ### T8 — the independence hypothesis of T7 follows from the module paths

`dottedPrefix p` is the key prefix of the module at path `p` (every component followed by a dot).  When no
component contains a dot (torch rejects such child names) two paths neither of which is a prefix of the other
— two different quantized leaves of a module tree — never produce a common key, so every leaf of a model of
any shape is read back from the whole-model dict. -/

theorem C10_prefixIndep_of_paths (p q : List String) (hp : ∀ c ∈ p, '.' ∉ c.toList)
    (hq : ∀ c ∈ q, '.' ∉ c.toList) (h1 : ¬ p <+: q) (h2 : ¬ q <+: p) :
    ∀ x y, dottedPrefix p ++ x ≠ dottedPrefix q ++ y :=
  prefixIndep_of_paths p q hp hq h1 h2

theorem C10_model_roundtrip_paths (ms : List (List String × QModuleSer))
    (hdot : ∀ pm ∈ ms, ∀ c ∈ pm.1, '.' ∉ c.toList)
    (hpre : ms.Pairwise fun a b => ¬ a.1 <+: b.1 ∧ ¬ b.1 <+: a.1)
    (pm : List String × QModuleSer) (hm : pm ∈ ms) (wf : pm.2.WellFormed) :
    QModuleSer.load (dottedPrefix pm.1) pm.2.bias.isSome
      (modelSave (ms.map fun pm => (dottedPrefix pm.1, pm.2))) = some pm.2 := by
  have hp : (ms.map fun pm => (dottedPrefix pm.1, pm.2)).Pairwise
      fun a b => ∀ x y, a.1 ++ x ≠ b.1 ++ y := by
    rw [List.pairwise_map]
    refine List.Pairwise.imp_of_mem ?_ hpre
    intro a b ha hb hab
    exact C10_prefixIndep_of_paths a.1 b.1 (hdot a ha) (hdot b hb) hab.1 hab.2
  exact C10_model_roundtrip _ hp (dottedPrefix pm.1, pm.2) (List.mem_map_of_mem (f := fun pm : List String × QModuleSer => (dottedPrefix pm.1, pm.2)) hm) wf

/-- non-vacuity: three quantized leaves of a nested model (`0`, `block.0.fc`, `block.1`) -/
example : dottedPrefix ["block", "0", "fc"] = "block.0.fc." := by decide
example :
    let ms : List (List String × QModuleSer) :=
      [(["0"], sampleModule4), (["block", "0", "fc"], sampleModule8), (["block", "1"], sampleModule4)]
    (∀ pm ∈ ms, ∀ c ∈ pm.1, '.' ∉ c.toList) ∧ ms.Pairwise fun a b => ¬ a.1 <+: b.1 ∧ ¬ b.1 <+: a.1 := by
  decide

end Quanto

/-
Property C07 — the quantized linear returns the product of the dequantized operands plus bias
within the floating point error of one accumulation; all internal kernel routes (integer GEMM,
int8-packed GEMM, float fallback) agree with that reference; the result is finite whenever the
reference is representable.

* T1 `C07_route_*`: the route tables of the three devices, one `iff` per kernel;
* T2 `C07_route_preconditions`: the integer kernel only sees int8 × int8 payloads, the packed
  kernel only bfloat16 activations × int8 weights;
* T3 `C07_kernels_agree`, `C07_routes_agree`: whenever a payload is int8 the three kernels compute
  the same element — `cast_outF (fl32 (fl32 acc · scale))`;
* T4 `C07_scale_factorisation`, `C07_dotRows_scaled`: scales factor out of the contraction
  (exact algebra), so the accumulator times the scales is the product of the exactly dequantized
  operands;
* T5 `C07_element_error`: explicit error envelope of an element (three roundings),
  `C07_element_finite`: no overflow when the (slightly inflated) reference fits the output format,
  `C07_linear_error`: the envelope at the level of `linearQBytes`, scale product included;
* T6 `C07_linear_shape_and_element`, `C07_batch_flattening`: shape / size / element equation of
  `linearQBytes`, meaning of `view(-1, in_features)`;
* T7 `C07_counterexample_float8_f16_overflow`: float8 × float8 payloads are multiplied in the
  output dtype *before* the scales are applied: in float16 the accumulator overflows although the
  scaled result is representable (recorded finding; the third clause of the property fails there);
* T8 `C07_int_accumulator_bound`: the int32 accumulator cannot overflow for `in_features ≤ 131071`
  (and `C07_int_accumulator_bound_sharp`: 131072 is reached).
-/
import Proofs.C07.Lemmas
namespace Quanto

/-! ## T1 — route tables -/

/-- the CPU route uses the integer GEMM exactly when both payloads are int8 (torch ≥ 2.4) and
`in_features > 1` -/
theorem C07_route_cpu_int (c : MmConfig) : routeCPU c = .intMm ↔ (c.torchGe24 = true ∧ c.act = .int8 ∧ c.weight = .int8 ∧ c.inF > 1) := by
  unfold routeCPU
  constructor
  · intro h
    split at h
    · rename_i h1; simp at h1; exact ⟨h1.1.1.1, h1.1.1.2, h1.1.2, h1.2⟩
    · split at h <;> simp at h
  · intro ⟨h1, h2, h3, h4⟩; simp [h1, h2, h3, h4]

/-- the CPU route uses the int8-packed GEMM exactly when the integer GEMM is not selected, the
activations are bfloat16, the weights int8 and `in_features` is a multiple of 16 -/
theorem C07_route_cpu_pack (c : MmConfig) :
    routeCPU c = .int8packMm ↔
      (¬ (c.torchGe24 = true ∧ c.act = .int8 ∧ c.weight = .int8 ∧ c.inF > 1) ∧
        c.act = .bf16 ∧ c.weight = .int8 ∧ c.inF % 16 = 0) := by
  unfold routeCPU
  split_ifs with h1 h2 <;> simp_all

/-- every other CPU configuration goes through the float kernel -/
theorem C07_route_cpu_float (c : MmConfig) :
    routeCPU c = .floatMm ↔
      (¬ (c.torchGe24 = true ∧ c.act = .int8 ∧ c.weight = .int8 ∧ c.inF > 1) ∧
        ¬ (c.act = .bf16 ∧ c.weight = .int8 ∧ c.inF % 16 = 0)) := by
  unfold routeCPU
  split_ifs with h1 h2 <;> simp_all

theorem C07_route_cuda_int (c : MmConfig) :
    routeCUDA c = .intMm ↔
      (c.act = .int8 ∧ c.weight = .int8 ∧ 16 < c.rows ∧ c.rows % 8 = 0 ∧ c.inF % 8 = 0 ∧
        c.outF % 8 = 0) := by
  unfold routeCUDA
  split_ifs with h1 <;> simp_all

theorem C07_route_cuda_float (c : MmConfig) :
    routeCUDA c = .floatMm ↔
      ¬ (c.act = .int8 ∧ c.weight = .int8 ∧ 16 < c.rows ∧ c.rows % 8 = 0 ∧ c.inF % 8 = 0 ∧
        c.outF % 8 = 0) := by
  unfold routeCUDA
  split_ifs with h1 <;> simp_all

theorem C07_route_cuda_never_pack (c : MmConfig) : routeCUDA c ≠ .int8packMm := by
  unfold routeCUDA
  split_ifs <;> simp

theorem C07_route_mps_pack (c : MmConfig) :
    routeMPS c = .int8packMm ↔
      (c.torchGe24 = true ∧ c.act = .bf16 ∧ c.weight = .int8 ∧ c.inF % 32 = 0 ∧
        c.outF % 32 = 0) := by
  unfold routeMPS
  split_ifs with h1 <;> simp_all

theorem C07_route_mps_float (c : MmConfig) :
    routeMPS c = .floatMm ↔
      ¬ (c.torchGe24 = true ∧ c.act = .bf16 ∧ c.weight = .int8 ∧ c.inF % 32 = 0 ∧
        c.outF % 32 = 0) := by
  unfold routeMPS
  split_ifs with h1 <;> simp_all

theorem C07_route_mps_never_int (c : MmConfig) : routeMPS c ≠ .intMm := by
  unfold routeMPS
  split_ifs <;> simp

/-! ## T2 — preconditions of the specialised kernels, on every device -/

/-- on every device the integer kernel is only chosen when both payloads are int8, the packed
kernel only when the activations are bfloat16 and the weights int8 -/
theorem C07_route_preconditions (route : MmConfig → MmKernel)
    (hr : route ∈ [routeCPU, routeCUDA, routeMPS]) (c : MmConfig) :
    (route c = .intMm → c.act = .int8 ∧ c.weight = .int8) ∧
    (route c = .int8packMm → c.act = .bf16 ∧ c.weight = .int8) := by
  simp only [List.mem_cons, List.not_mem_nil, or_false] at hr
  rcases hr with rfl | rfl | rfl
  · exact ⟨fun h => let ⟨_, a, w, _⟩ := (C07_route_cpu_int c).mp h; ⟨a, w⟩,
      fun h => let ⟨_, a, w, _⟩ := (C07_route_cpu_pack c).mp h; ⟨a, w⟩⟩
  · exact ⟨fun h => let ⟨a, w, _⟩ := (C07_route_cuda_int c).mp h; ⟨a, w⟩,
      fun h => absurd h (C07_route_cuda_never_pack c)⟩
  · exact ⟨fun h => absurd h (C07_route_mps_never_int c),
      fun h => let ⟨_, a, w, _⟩ := (C07_route_mps_pack c).mp h; ⟨a, w⟩⟩

/-! ## T3 — the kernels agree -/

/-- with an int8 payload on either side, the three kernels compute the same element for every
accumulator and every scale (finite or not), in every working output format -/
theorem C07_kernels_agree_general (k : MmKernel) (outF : Fmt) (hF : WorkFmt outF)
    (act weight : Payload) (hint : act = .int8 ∨ weight = .int8) (acc : Rat) (s : FV) :
    mmElement k outF act weight acc s = mmElement .floatMm outF act weight acc s := by
  rw [mmElement_float_of_int8 outF (work_p_le outF hF) hint]
  cases k
  · exact mmElement_float_of_int8 outF (work_p_le outF hF) hint acc s
  · rfl
  · rfl

/-- integer GEMM (int8 × int8) and packed GEMM (bfloat16 × int8) against the float fallback -/
theorem C07_kernels_agree (outF : Fmt) (hF : WorkFmt outF) (acc : Rat) (s : FV) :
    mmElement .intMm outF .int8 .int8 acc s = mmElement .floatMm outF .int8 .int8 acc s ∧
    mmElement .int8packMm outF .bf16 .int8 acc s = mmElement .floatMm outF .bf16 .int8 acc s :=
  ⟨C07_kernels_agree_general _ outF hF _ _ (Or.inl rfl) acc s,
   C07_kernels_agree_general _ outF hF _ _ (Or.inr rfl) acc s⟩

/-- the common value of the three kernels: accumulator to float32, times the scale in float32,
cast to the output format -/
theorem C07_kernel_closed_form (k : MmKernel) (outF : Fmt) (hF : WorkFmt outF)
    (act weight : Payload) (hint : act = .int8 ∨ weight = .int8) (acc : Rat) (s : FV) :
    mmElement k outF act weight acc s = outF.rndV (f32.fl ((f32.rnd acc).mulX s)) := by
  rw [C07_kernels_agree_general k outF hF act weight hint,
    mmElement_float_of_int8 outF (work_p_le outF hF) hint]
  rfl

/-- whatever kernel a device selects for a configuration, the element it computes is the element
of the float kernel -/
theorem C07_routes_agree (route : MmConfig → MmKernel)
    (hr : route ∈ [routeCPU, routeCUDA, routeMPS]) (c : MmConfig) (outF : Fmt) (hF : WorkFmt outF)
    (acc : Rat) (s : FV) :
    mmElement (route c) outF c.act c.weight acc s = mmElement .floatMm outF c.act c.weight acc s := by
  obtain ⟨hi, hp⟩ := C07_route_preconditions route hr c
  cases hk : route c with
  | floatMm => rfl
  | intMm => exact C07_kernels_agree_general _ outF hF _ _ (Or.inl (hi hk).1) acc s
  | int8packMm => exact C07_kernels_agree_general _ outF hF _ _ (Or.inr (hp hk).2) acc s

/-! ## T4 — the scales factor out of the contraction -/

/-- `Σ_{k<K} (sa·a_k)·(sw·w_k) = (sa·sw)·Σ_{k<K} a_k·w_k`, as the left fold `dotRows` performs -/
theorem C07_scale_factorisation (sa sw : Rat) (a w : Nat → Rat) (K : Nat) :
    (List.range K).foldl (fun acc k => acc + (sa * a k) * (sw * w k)) 0 =
      (sa * sw) * (List.range K).foldl (fun acc k => acc + a k * w k) 0 := by
  have := foldl_add_scale (fun k => (sa * a k) * (sw * w k)) (fun k => a k * w k) (sa * sw)
    (List.range K) (fun k _ => by ring) 0
  rwa [mul_zero] at this

/-- the exact dot product of the exactly dequantized rows (`scale · payload`, positionwise) is the
product of the scales times the dot product of the payloads -/
theorem C07_dotRows_scaled (a w : T FV) (sa sw : Rat) (K i j : Nat)
    (ha : (i + 1) * K ≤ a.data.size) (hw : (j + 1) * K ≤ w.data.size) :
    dotRows (a.map fun v => (FV.fin sa).mulX v) (w.map fun v => (FV.fin sw).mulX v) K i j =
      sa * sw * dotRows a w K i j :=
  dotRows_scaled a w sa sw K i j ha hw

/-! ## T5 — error envelope of one element -/

/-- Error of one output element, any kernel, one payload int8 (so that the product is formed in
float32).  With `u = f32.u = 2^-24`, `η = f32.eta = 2^-150`, `v = outF.u1 = 2^-p(outF)`,
`θ = outF.eta1 = 2^(emin(outF) - p(outF))`:

  `|y - acc·s| ≤ ((1+u)²(1+v) - 1)·|acc·s| + (1+v)·((1+u)·|s| + 1)·η + θ`. -/
theorem C07_element_error (k : MmKernel) (outF : Fmt) (hF : WorkFmt outF) (act weight : Payload)
    (hint : act = .int8 ∨ weight = .int8) (acc sq y : Rat)
    (h : mmElement k outF act weight acc (.fin sq) = .fin y) :
    |y - acc * sq| ≤ ((1 + f32.u) ^ 2 * (1 + outF.u1) - 1) * |acc * sq|
      + (1 + outF.u1) * ((1 + f32.u) * |sq| + 1) * f32.eta + outF.eta1 := by
  rw [C07_kernel_closed_form k outF hF act weight hint] at h
  obtain ⟨a1, p1, h1, h2, h3⟩ := mmCore_fin_stages outF acc sq y h
  obtain ⟨rfl, -⟩ := rnd_fin _ _ _ h1
  obtain ⟨rfl, -⟩ := rnd_fin _ _ _ h3
  have e1 := rndFin_err f32 acc
  have e2 := fl_err_f32 _ _ h2
  have e3 := rndFin_err outF p1
  rw [← u_f32, ← eta_f32] at e1
  exact three_stage_err (Fmt.u_nonneg f32) (pow2_pos _).le e1 e2 e3

/-- float32 output: the final cast is exact, two roundings remain -/
theorem C07_element_error_f32 (k : MmKernel) (act weight : Payload)
    (hint : act = .int8 ∨ weight = .int8) (acc sq y : Rat)
    (h : mmElement k f32 act weight acc (.fin sq) = .fin y) :
    |y - acc * sq| ≤ ((1 + f32.u) ^ 2 - 1) * |acc * sq| + ((1 + f32.u) * |sq| + 1) * f32.eta := by
  rw [C07_kernel_closed_form k f32 (by simp) act weight hint] at h
  obtain ⟨a1, p1, h1, h2, h3⟩ := mmCore_fin_stages f32 acc sq y h
  obtain ⟨rfl, -⟩ := rnd_fin _ _ _ h1
  obtain ⟨hy, -⟩ := rnd_fin _ _ _ h3
  obtain ⟨hp1, -⟩ := fl_fin f32 (by simp) _ _ h2
  rw [flR_f32] at hp1
  have hrep : f32.Rep p1 := hp1 ▸ rndFin_rep f32 f32_one_le_p _
  rw [rndFin_of_rep f32 f32_one_le_p p1 hrep] at hy
  subst hy
  have e1 := rndFin_err f32 acc
  have e2 := fl_err_f32 _ _ h2
  rw [← u_f32, ← eta_f32] at e1
  have e3 : |y - y| ≤ 0 * |y| + 0 := by simp
  have := three_stage_err (Fmt.u_nonneg f32) (le_refl 0) e1 e2 e3
  linarith

/-- the relative coefficient of `C07_element_error` is `2u + v` up to second order -/
theorem C07_element_error_coeff (outF : Fmt) (hF : WorkFmt outF) :
    (1 + f32.u) ^ 2 * (1 + outF.u1) - 1 ≤ 2 * f32.u + outF.u1 + 4 * f32.u * outF.u1 := by
  have hu : f32.u = 1 / 2 ^ 24 := by
    rw [u_f32]; norm_num [Fmt.u1, f32, pow2_eq]
  have hv : f32.u ≤ outF.u1 := by
    rw [hu]
    rcases WorkFmt.cases hF with rfl | rfl | rfl
    · norm_num [Fmt.u1, f32, pow2_eq]
    · norm_num [Fmt.u1, f16, pow2_eq]
    · norm_num [Fmt.u1, bf16, pow2_eq]
  have h0 : 0 ≤ f32.u := Fmt.u_nonneg f32
  have h1 : f32.u ≤ 1 := by rw [hu]; norm_num
  have hv0 : 0 ≤ outF.u1 := h0.trans hv
  nlinarith [mul_nonneg h0 hv0, mul_nonneg h0 (mul_nonneg h0 hv0),
    mul_le_mul_of_nonneg_left hv h0, mul_le_mul_of_nonneg_right h1 (mul_nonneg h0 hv0)]

/-- No overflow on the int8 routes: if the accumulator fits float32 and the reference `acc·s`,
inflated by one float32 rounding, fits the output format, the element is finite. -/
theorem C07_element_finite (k : MmKernel) (outF : Fmt) (hF : WorkFmt outF) (act weight : Payload)
    (hint : act = .int8 ∨ weight = .int8) (acc sq : Rat)
    (hacc : |acc| ≤ f32.maxFin)
    (hfit : ((1 + f32.u) * |acc| + f32.eta) * |sq| ≤ outF.maxFin) :
    ∃ y, mmElement k outF act weight acc (.fin sq) = .fin y := by
  rw [C07_kernel_closed_form k outF hF act weight hint]
  have h1 := rnd_of_le_maxFin_aux f32 f32_one_le_p maxFin_rep_f32 acc hacc
  rw [h1]
  have hm : (FV.fin (f32.rndFin acc)).mulX (.fin sq) = .fin (f32.rndFin acc * sq) := rfl
  rw [hm]
  -- magnitude of the float32 accumulator times the scale
  have e1 := rndFin_err f32 acc
  rw [← u_f32, ← eta_f32] at e1
  have ha1 : |f32.rndFin acc| ≤ (1 + f32.u) * |acc| + f32.eta := by
    have := abs_add_le acc (f32.rndFin acc - acc)
    rw [add_sub_cancel] at this
    linarith
  have hz : |f32.rndFin acc * sq| ≤ outF.maxFin := by
    rw [abs_mul]
    exact (mul_le_mul_of_nonneg_right ha1 (abs_nonneg sq)).trans hfit
  obtain ⟨hz1, hz2⟩ := abs_le.mp hz
  have h2 := fl_fin_of_le f32 (by simp) _ (hz.trans (work_maxFin_le_f32 outF hF))
  rw [h2, rndV_fin]
  have hrep := work_maxFin_rep_f32 outF hF
  have hp : |f32.flR (f32.rndFin acc * sq)| ≤ outF.maxFin :=
    abs_le.mpr ⟨le_flR_of_rep f32 (by simp) (Rep_neg hrep) hz1,
      flR_le_of_rep f32 (by simp) hrep hz2⟩
  exact ⟨_, rnd_of_le_maxFin_aux outF (work_one_le_p outF hF) (work_maxFin_rep outF hF) _ hp⟩

/-! ## T6 — `linearQBytes` as an equation; batch flattening -/

/-- Shape, size and elements of `QTensorLinear.forward`: the output has shape `batch ++ [out]`
(`batch` = activation shape without its last dimension, `out` = first dimension of the weight) and
element `n` is the bias-added kernel element of row `n / out` of the flattened activations and row
`n % out` of the weight.  (`ActOperand.data / payload`, `QB.payload`, `linScale`, `addBias` are the
projections of `linearQBytes`' own `let`s, see `Proofs/C07/Lemmas.lean`.) -/
theorem C07_linear_shape_and_element (k : MmKernel) (F : Fmt) (x : ActOperand) (w : QB)
    (bias : Option (T FV)) :
    let out := w.size.headD 0
    let K := w.size.getD 1 0
    let y := linearQBytes k F x w bias
    y.shape = x.data.shape.dropLast ++ [out] ∧
    y.data.size = prod y.shape ∧
    prod y.shape = prod x.data.shape.dropLast * out ∧
    ∀ n, n < prod (x.data.shape.dropLast ++ [out]) →
      y.get n = addBias F bias (n % out)
        (mmElement k F (x.payload F) w.payload (dotRows x.data w.data K (n / out) (n % out))
          (linScale F x w (n % out))) := by
  intro out K y
  have hy : y = _ := linearQBytes_eq k F x w bias
  refine ⟨by rw [hy]; rfl, by rw [hy, T.size_ofFn]; rfl, by rw [hy]; exact prod_snoc _ _, ?_⟩
  intro n hn
  rw [hy, T.get_ofFn _ _ _ hn]

/-- the same equation spelled out for quantized int8 activations and an int8 weight, no bias -/
theorem C07_linear_element_int8 (k : MmKernel) (F : Fmt) (q w : QB)
    (hq : q.Q = .qint8) (hw : w.Q = .qint8) (n : Nat)
    (hn : n < prod (q.data.shape.dropLast ++ [w.size.headD 0])) :
    (linearQBytes k F (.quant q) w none).get n =
      mmElement k F .int8 .int8
        (dotRows q.data w.data (w.size.getD 1 0) (n / w.size.headD 0) (n % w.size.headD 0))
        (F.mul (q.scale.get 0)
          (w.scale.get (if w.scale.data.size = 1 then 0 else n % w.size.headD 0))) := by
  rw [(C07_linear_shape_and_element k F (.quant q) w none).2.2.2 n hn]
  simp [addBias, ActOperand.payload, QB.payload, linScale, ActOperand.data, hq, hw, QT.isFloat]

/-- `view(-1, in_features)`: for a batch shape `b` and row length `K`, row `i` of the flattened
`[prod b, K]` view and column `k` is position `i·K + k` of the row-major data, i.e. the element
of multi-index `unflat b i ++ [k]` of the original `b ++ [K]` tensor; conversely the element of
batch multi-index `idx` lies in row `flat b idx`. -/
theorem C07_batch_flattening (b : List Nat) (K : Nat) :
    prod (b ++ [K]) = prod [prod b, K] ∧
    (∀ i k, i < prod b → k < K →
      flat [prod b, K] [i, k] = i * K + k ∧ unflat (b ++ [K]) (i * K + k) = unflat b i ++ [k]) ∧
    (∀ idx k, validIdx b idx → k < K →
      flat (b ++ [K]) (idx ++ [k]) = flat [prod b, K] [flat b idx, k]) := by
  refine ⟨by rw [prod_snoc]; simp [prod], ?_, ?_⟩
  · intro i k hi hk
    exact ⟨by simp [flat, prod], unflat_snoc b K i k hi hk⟩
  · intro idx k hv _
    rw [flat_snoc b idx K k (validIdx_length b idx hv)]
    simp [flat, prod]

/-! ## T5 at the level of the layer -/

/-- Quantized activations (per-tensor scale `sa`) times a QBytes weight (scale `sw` for the output
feature at hand), at least one of the payloads int8, no bias: a finite output element `y` differs
from the product of the dequantized operands `sa·sw·Σ a_k w_k` (see `C07_dotRows_scaled`) by the
element envelope of `C07_element_error` at the rounded scale product `sq = fl_F(sa·sw)` plus the
rounding of that product. -/
theorem C07_linear_error (k : MmKernel) (F : Fmt) (hF : WorkFmt F) (q w : QB)
    (hint : q.Q = .qint8 ∨ w.Q = .qint8) (n : Nat)
    (hn : n < prod (q.data.shape.dropLast ++ [w.size.headD 0])) (sa sw y : Rat)
    (hsa : q.scale.get 0 = .fin sa)
    (hsw : w.scale.get (if w.scale.data.size = 1 then 0 else n % w.size.headD 0) = .fin sw)
    (hy : (linearQBytes k F (.quant q) w none).get n = .fin y) :
    let acc := dotRows q.data w.data (w.size.getD 1 0) (n / w.size.headD 0) (n % w.size.headD 0)
    ∃ sq, F.mul (.fin sa) (.fin sw) = .fin sq ∧
      |sq - sa * sw| ≤ F.u * |sa * sw| + F.eta ∧
      |y - sa * sw * acc| ≤
        ((1 + f32.u) ^ 2 * (1 + F.u1) - 1) * |acc * sq|
          + (1 + F.u1) * ((1 + f32.u) * |sq| + 1) * f32.eta + F.eta1
          + |acc| * (F.u * |sa * sw| + F.eta) := by
  intro acc
  rw [(C07_linear_shape_and_element k F (.quant q) w none).2.2.2 n hn] at hy
  simp only [addBias, linScale, hsa, hsw, ActOperand.data] at hy
  have hpay : (ActOperand.quant q).payload F = .int8 ∨ w.payload = .int8 := by
    rcases hint with h | h
    · left; simp [ActOperand.payload, h, QT.isFloat]
    · right; simp [QB.payload, h, QT.isFloat]
  have hy' := hy
  rw [C07_kernel_closed_form k F hF _ _ hpay] at hy'
  obtain ⟨sq, hs⟩ := mmCore_fin_scale F _ _ y hy'
  refine ⟨sq, hs, ?_, ?_⟩
  · exact fl_err F hF _ _ hs
  · rw [hs] at hy
    have e := C07_element_error k F hF _ _ hpay _ sq y hy
    have es := fl_err F hF _ _ hs
    have : |y - sa * sw * acc| ≤ |y - acc * sq| + |acc| * |sq - sa * sw| := by
      have := abs_add_le (y - acc * sq) (acc * (sq - sa * sw))
      rw [abs_mul] at this
      have h2 : y - acc * sq + acc * (sq - sa * sw) = y - sa * sw * acc := by ring
      rwa [h2] at this
    have := mul_le_mul_of_nonneg_left es (abs_nonneg acc)
    linarith

/-! ## T7 — float8 × float8: the accumulation overflows float16 before the scales apply -/

/-- Recorded finding: with float8 payloads on both sides the float kernel multiplies in the output
dtype.  Two e4m3 maxima (448·448 = 200704 > 65504) overflow float16, the scale `2^-16` arrives
too late, although the scaled value `3.0625` is a float16 number.  In bfloat16 / float32 the same
element is finite. -/
theorem C07_counterexample_float8_f16_overflow :
    mmElement .floatMm f16 .float8 .float8 (448 * 448 : Rat) (.fin (1 / 65536)) = .pinf ∧
    (448 * 448 : Rat) * (1 / 65536) = 3.0625 ∧
    f16.representable ((448 * 448 : Rat) * (1 / 65536)) = true ∧
    mmElement .floatMm bf16 .float8 .float8 (448 * 448 : Rat) (.fin (1 / 65536)) = .fin 3.0625 ∧
    mmElement .floatMm f32 .float8 .float8 (448 * 448 : Rat) (.fin (1 / 65536)) = .fin 3.0625 := by
  refine ⟨?_, ?_, ?_, ?_, ?_⟩ <;> decide +kernel

/-! ## T8 — the int32 accumulator of `torch._int_mm` -/

/-- payload values in `[-128, 127]` and `in_features ≤ 131071`: the exact accumulator is below
`2^31` in magnitude (integrality of the payloads is not needed for the bound) -/
theorem C07_int_accumulator_bound (a w : T FV) (K i j : Nat) (hK : K ≤ 131071)
    (ha : ∀ n x, a.get n = .fin x → -128 ≤ x ∧ x ≤ 127)
    (hw : ∀ n y, w.get n = .fin y → -128 ≤ y ∧ y ≤ 127) :
    |dotRows a w K i j| < 2 ^ 31 := by
  have h := dotRows_abs_le a w 128 128 (by norm_num) (by norm_num)
    (fun n x hx => abs_le.mpr ⟨(ha n x hx).1, by linarith [(ha n x hx).2]⟩)
    (fun n y hy => abs_le.mpr ⟨(hw n y hy).1, by linarith [(hw n y hy).2]⟩) K i j
  have hK' : (K : Rat) ≤ 131071 := by exact_mod_cast hK
  have : (K : Rat) * (128 * 128) ≤ 131071 * (128 * 128) :=
    mul_le_mul_of_nonneg_right hK' (by norm_num)
  calc |dotRows a w K i j| ≤ (K : Rat) * (128 * 128) := h
    _ ≤ 131071 * (128 * 128) := this
    _ < 2 ^ 31 := by norm_num

/-- the bound on `in_features` is sharp: 131072 products `(-128)·(-128)` reach `2^31` -/
theorem C07_int_accumulator_bound_sharp :
    ∃ a w : T FV,
      (∀ n x, a.get n = .fin x → -128 ≤ x ∧ x ≤ 127) ∧
      (∀ n y, w.get n = .fin y → -128 ≤ y ∧ y ≤ 127) ∧
      dotRows a w 131072 0 0 = 2 ^ 31 := by
  have hrange : ∀ n x, (constRow 131072 (-128)).get n = .fin x → -128 ≤ x ∧ x ≤ 127 := by
    intro n x hx
    rcases constRow_get 131072 (-128) n with h | h <;> rw [h] at hx <;> cases hx <;> norm_num
  refine ⟨constRow 131072 (-128), constRow 131072 (-128), hrange, hrange, ?_⟩
  rw [dotRows_constRow]
  norm_num

/-! ## Non-vacuity -/

-- T1: concrete configurations
example : routeCPU ⟨.int8, .int8, 4, 64, 32, true⟩ = .intMm := by decide
example : routeCPU ⟨.int8, .int8, 4, 1, 32, true⟩ = .floatMm := by decide
example : routeCPU ⟨.int8, .int8, 4, 64, 32, false⟩ = .floatMm := by decide
example : routeCPU ⟨.bf16, .int8, 4, 64, 32, true⟩ = .int8packMm := by decide
example : routeCPU ⟨.bf16, .int8, 4, 24, 32, true⟩ = .floatMm := by decide
example : routeCUDA ⟨.int8, .int8, 24, 64, 32, true⟩ = .intMm := by decide
example : routeCUDA ⟨.int8, .int8, 16, 64, 32, true⟩ = .floatMm := by decide
example : routeMPS ⟨.bf16, .int8, 4, 64, 32, true⟩ = .int8packMm := by decide
example : routeMPS ⟨.bf16, .int8, 4, 64, 48, true⟩ = .floatMm := by decide

-- T3: the three kernels on acc = 1234, scale 1/8, float16 output: 154.25 (exact)
example : mmElement .intMm f16 .int8 .int8 1234 (.fin (1 / 8)) = .fin 154.25 := by decide +kernel
example : mmElement .floatMm f16 .int8 .int8 1234 (.fin (1 / 8)) = .fin 154.25 := by decide +kernel
example : mmElement .int8packMm bf16 .bf16 .int8 1234 (.fin (1 / 8)) = .fin 154 := by decide +kernel
example : mmElement .floatMm bf16 .bf16 .int8 1234 (.fin (1 / 8)) = .fin 154 := by decide +kernel

-- T5: the hypothesis of the envelope is satisfiable, and the envelope is small
example : |(154.25 : Rat) - 1234 * (1 / 8)| ≤ ((1 + f32.u) ^ 2 * (1 + f16.u1) - 1) * |(1234 : Rat) * (1 / 8)|
      + (1 + f16.u1) * ((1 + f32.u) * |(1 / 8 : Rat)| + 1) * f32.eta + f16.eta1 :=
  C07_element_error .floatMm f16 (by simp) .int8 .int8 (Or.inl rfl) 1234 (1 / 8) 154.25
    (by decide +kernel)

example : ((1 + f32.u) ^ 2 * (1 + f16.u1) - 1) * |(1234 : Rat) * (1 / 8)|
      + (1 + f16.u1) * ((1 + f32.u) * |(1 / 8 : Rat)| + 1) * f32.eta + f16.eta1 < 0.0754 := by
  decide +kernel

-- a rounded case: bfloat16 output, 154.25 → 154, within the envelope
example : |(154 : Rat) - 1234 * (1 / 8)| ≤ ((1 + f32.u) ^ 2 * (1 + bf16.u1) - 1) * |(1234 : Rat) * (1 / 8)|
      + (1 + bf16.u1) * ((1 + f32.u) * |(1 / 8 : Rat)| + 1) * f32.eta + bf16.eta1 :=
  C07_element_error .int8packMm bf16 (by simp) .bf16 .int8 (Or.inr rfl) 1234 (1 / 8) 154
    (by decide +kernel)

-- T5 finiteness: hypotheses hold on the same numbers
example : ∃ y, mmElement .intMm f16 .int8 .int8 1234 (.fin (1 / 8)) = .fin y :=
  C07_element_finite .intMm f16 (by simp) .int8 .int8 (Or.inl rfl) 1234 (1 / 8)
    (by decide +kernel) (by decide +kernel)

-- T4 on numbers
example : (List.range 3).foldl (fun acc k => acc + ((1 / 2 : Rat) * (k + 1)) * ((1 / 4 : Rat) * (2 * k + 1))) 0
    = (1 / 2 * (1 / 4)) * (List.range 3).foldl (fun acc k => acc + ((k : Rat) + 1) * (2 * k + 1)) 0 :=
  C07_scale_factorisation (1 / 2) (1 / 4) (fun k => (k : Rat) + 1) (fun k => 2 * (k : Rat) + 1) 3

-- T6: a 2×3 quantized activation against a 2×3 weight; T8 on the same tensors
example :
    (linearQBytes .intMm f32
      (.quant ⟨f32, .qint8, none, [2, 3], ⟨[2, 3], #[.fin 1, .fin 2, .fin 3, .fin (-4), .fin 5, .fin 6]⟩, ⟨[], #[.fin (1 / 2)]⟩⟩)
      ⟨f32, .qint8, some true, [2, 3], ⟨[2, 3], #[.fin 1, .fin 0, .fin (-1), .fin 2, .fin 2, .fin 2]⟩, ⟨[2, 1], #[.fin (1 / 4), .fin 1]⟩⟩
      none).data = #[.fin (-1 / 4), .fin 6, .fin (-5 / 4), .fin 7] := by decide +kernel

example : flat [2, 3, 4] [1, 2, 3] = flat [2 * 3, 4] [flat [2, 3] [1, 2], 3] := by decide

end Quanto

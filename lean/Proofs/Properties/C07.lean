import Quanto.Linear
namespace Quanto

/-- placeholder until the matmul proofs land: the CPU route uses the integer GEMM exactly when both payloads are int8 (torch ≥ 2.4) -/
theorem C07_route_cpu_int (c : MmConfig) : routeCPU c = .intMm ↔ (c.torchGe24 = true ∧ c.act = .int8 ∧ c.weight = .int8 ∧ c.inF > 1) := by
  unfold routeCPU
  constructor
  · intro h
    split at h
    · rename_i h1; simp at h1; exact ⟨h1.1.1.1, h1.1.1.2, h1.1.2, h1.2⟩
    · split at h <;> simp at h
  · intro ⟨h1, h2, h3, h4⟩; simp [h1, h2, h3, h4]

end Quanto

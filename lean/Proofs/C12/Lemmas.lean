/-
Helpers for property C12: the "sentinel never interferes" predicate (prefix form and the
recursive, executable form), the exact scalar casts of the momentum, the pure inequalities behind
the convex-combination bound.
-/
import Quanto.Calib
import Proofs.Float.Extra
import Proofs.C01.Lemmas

namespace Quanto

/-! ### the sentinel predicate -/

/-- the property's reading: no batch ever meets a buffer that (after at least one event) holds
the "not yet calibrated" sentinel 1 -/
def noSentinel (F : Fmt) (m : Rat) (evs : List ScaleEvent) : Prop :=
  ∀ (p : List ScaleEvent) (x : FV) (rest : List ScaleEvent),
    evs = p ++ .batch x :: rest → p ≠ [] → calibFold F m p ≠ .fin 1

/-- recursive, executable form on (current buffer value, remaining events) -/
def noSentinelFrom (F : Fmt) (m : Rat) : FV → List ScaleEvent → Bool
  | _, [] => true
  | s, .batch x :: rest => (s != .fin 1) && noSentinelFrom F m (emaStep F m s x) rest
  | _, .adopt s' :: rest => noSentinelFrom F m s' rest

theorem calibFold_nil (F : Fmt) (m : Rat) (s : FV) : calibFold F m [] s = s := rfl

theorem calibFold_cons (F : Fmt) (m : Rat) (e : ScaleEvent) (evs : List ScaleEvent) (s : FV) :
    calibFold F m (e :: evs) s = calibFold F m evs (applyEvent F m s e) := rfl

theorem calibFold_append (F : Fmt) (m : Rat) (a b : List ScaleEvent) (s : FV) :
    calibFold F m (a ++ b) s = calibFold F m b (calibFold F m a s) := by
  unfold calibFold; rw [List.foldl_append]

theorem updatedScale_sentinel (F : Fmt) (m : Rat) (x : FV) : updatedScale F m (.fin 1) x = x := by
  simp [updatedScale]

theorem updatedScale_of_ne (F : Fmt) (m : Rat) {s : FV} (h : s ≠ .fin 1) (x : FV) :
    updatedScale F m s x = emaStep F m s x := by
  simp [updatedScale, h]

/-- the recursive form, stated for a buffer value `s` reached after at least one event -/
theorem noSentinelFrom_iff (F : Fmt) (m : Rat) (s : FV) (evs : List ScaleEvent) :
    noSentinelFrom F m s evs = true ↔
      ∀ (p : List ScaleEvent) (x : FV) (rest : List ScaleEvent),
        evs = p ++ .batch x :: rest → calibFold F m p s ≠ .fin 1 := by
  induction evs generalizing s with
  | nil =>
    simp only [noSentinelFrom, true_iff]
    intro p x rest h
    exact absurd h (by simp)
  | cons e evs ih =>
    cases e with
    | batch y =>
      simp only [noSentinelFrom, Bool.and_eq_true, bne_iff_ne, ne_eq]
      rw [ih]
      constructor
      · rintro ⟨hs, hrest⟩ p x rest hp
        cases p with
        | nil => exact hs
        | cons e' p' =>
          rw [List.cons_append, List.cons.injEq] at hp
          obtain ⟨rfl, hp⟩ := hp
          rw [calibFold_cons]
          show calibFold F m p' (updatedScale F m s y) ≠ _
          rw [updatedScale_of_ne F m hs]
          exact hrest p' x rest hp
      · intro h
        have hs : s ≠ .fin 1 := h [] y evs rfl
        refine ⟨hs, ?_⟩
        intro p x rest hp
        have := h (.batch y :: p) x rest (by rw [hp]; rfl)
        rw [calibFold_cons] at this
        change calibFold F m p (updatedScale F m s y) ≠ _ at this
        rwa [updatedScale_of_ne F m hs] at this
    | adopt s' =>
      simp only [noSentinelFrom]
      rw [ih]
      constructor
      · intro hrest p x rest hp
        cases p with
        | nil => exact absurd hp (by simp)
        | cons e' p' =>
          rw [List.cons_append, List.cons.injEq] at hp
          obtain ⟨rfl, hp⟩ := hp
          rw [calibFold_cons]
          exact hrest p' x rest hp
      · intro h p x rest hp
        have := h (.adopt s' :: p) x rest (by rw [hp]; rfl)
        rwa [calibFold_cons] at this

/-- the prefix form is the recursive form started after the first event -/
theorem noSentinel_cons_iff (F : Fmt) (m : Rat) (e : ScaleEvent) (evs : List ScaleEvent) :
    noSentinel F m (e :: evs) ↔ noSentinelFrom F m (applyEvent F m (.fin 1) e) evs = true := by
  rw [noSentinelFrom_iff]
  unfold noSentinel
  constructor
  · intro h p x rest hp
    have := h (e :: p) x rest (by rw [hp]; rfl) (by simp)
    rwa [calibFold_cons] at this
  · intro h p x rest hp hne
    cases p with
    | nil => exact absurd rfl hne
    | cons e' p' =>
      rw [List.cons_append, List.cons.injEq] at hp
      obtain ⟨rfl, hp⟩ := hp
      rw [calibFold_cons]
      exact h p' x rest hp

/-! ### the scalar casts of the momentum -/

theorem f64_one_le_p : 1 ≤ f64.p := by decide

theorem rep_one (F : Fmt) (hp : 1 ≤ F.p) (he : F.emin - (F.p : Int) + 1 ≤ 0) : F.Rep 1 := by
  have := rep_pow2 F hp 0 he
  rwa [pow2_zero] at this

theorem f32_rep_one : f32.Rep 1 := rep_one f32 (by decide) (by decide)
theorem f64_rep_one : f64.Rep 1 := rep_one f64 (by decide) (by decide)

theorem f32_rndFin_one : f32.rndFin 1 = 1 := rndFin_of_rep f32 f32_one_le_p 1 f32_rep_one
theorem f64_rndFin_one : f64.rndFin 1 = 1 := rndFin_of_rep f64 f64_one_le_p 1 f64_rep_one

theorem rndFin_unit (F : Fmt) (hp : 1 ≤ F.p) (h1 : F.Rep 1) {q : Rat} (h0 : 0 ≤ q) (hq : q ≤ 1) :
    0 ≤ F.rndFin q ∧ F.rndFin q ≤ 1 :=
  ⟨le_rndFin_of_rep F hp (Rep_zero F) h0, rndFin_le_of_rep F hp h1 hq⟩

theorem mul_fin_fin (F : Fmt) (a b : Rat) : F.mul (.fin a) (.fin b) = F.fl (.fin (a * b)) := rfl
theorem add_fin_fin (F : Fmt) (a b : Rat) : F.add (.fin a) (.fin b) = F.fl (.fin (a + b)) := rfl

theorem emaStep_fin (F : Fmt) (m s x : Rat) :
    emaStep F m (.fin s) (.fin x) =
      F.add (F.fl (.fin (f32.rndFin m * s))) (F.fl (.fin (x * f32.rndFin (f64.rndFin (1 - m))))) :=
  rfl

/-- the two float32 weights `a = float32(m)` and `b = float32(double(1 - m))` are in `[0,1]` and
sum to `1` up to `2^-24 + 2^-52` -/
theorem weights_bounds (m : Rat) (h0 : 0 ≤ m) (h1 : m ≤ 1) :
    0 ≤ f32.rndFin m ∧ 0 ≤ f32.rndFin (f64.rndFin (1 - m)) ∧
    f32.rndFin m + f32.rndFin (f64.rndFin (1 - m)) ≤ 1 + (pow2 (-24) + pow2 (-52)) ∧
    1 - (pow2 (-24) + pow2 (-52)) ≤ f32.rndFin m + f32.rndFin (f64.rndFin (1 - m)) := by
  obtain ⟨ha0, -⟩ := rndFin_unit f32 f32_one_le_p f32_rep_one h0 h1
  obtain ⟨hc0, hc1⟩ := rndFin_unit f64 f64_one_le_p f64_rep_one (by linarith : 0 ≤ 1 - m)
    (by linarith : 1 - m ≤ 1)
  obtain ⟨hb0, -⟩ := rndFin_unit f32 f32_one_le_p f32_rep_one hc0 hc1
  have ea := abs_le.mp (rndFin_err f32 m)
  have ec := abs_le.mp (rndFin_err f64 (1 - m))
  have eb := abs_le.mp (rndFin_err f32 (f64.rndFin (1 - m)))
  rw [abs_of_nonneg h0] at ea
  rw [abs_of_nonneg (by linarith : 0 ≤ 1 - m)] at ec
  rw [abs_of_nonneg hc0] at eb
  have u32 : f32.u1 = 1 / 2 ^ 24 := by norm_num [Fmt.u1, f32, pow2_eq]
  have u64 : f64.u1 = 1 / 2 ^ 53 := by norm_num [Fmt.u1, f64, pow2_eq]
  have p100 : pow2 (-100) = 1 / 2 ^ 100 := by norm_num [pow2_eq]
  have e32 : f32.eta1 ≤ 1 / 2 ^ 100 := by
    rw [← p100]; unfold Fmt.eta1; exact pow2_le_pow2 (by decide)
  have e32' : 0 ≤ f32.eta1 := (pow2_pos _).le
  have e64 : f64.eta1 ≤ 1 / 2 ^ 100 := by
    rw [← p100]; unfold Fmt.eta1; exact pow2_le_pow2 (by decide)
  have e64' : 0 ≤ f64.eta1 := (pow2_pos _).le
  have k : pow2 (-24) + pow2 (-52) = 1 / 2 ^ 24 + 1 / 2 ^ 52 := by norm_num [pow2_eq]
  rw [k]
  generalize f64.rndFin (1 - m) = c at *
  rw [u32] at ea eb
  rw [u64] at ec
  refine ⟨ha0, hb0, ?_, ?_⟩
  · nlinarith [ea.2, eb.2, ec.2]
  · nlinarith [ea.1, eb.1, ec.1]

theorem work_u_ge (F : Fmt) (hF : WorkFmt F) : pow2 (-24) ≤ F.u := by
  rcases hF.cases with rfl | rfl | rfl <;>
    norm_num [Fmt.u, Fmt.u1, Fmt.isHalf, f32, f16, bf16, pow2_eq]

/-! ### the pure inequalities -/

theorem ema_upper_core (u eta k a b s x P Q y : Rat) (hu0 : 0 ≤ u) (hu : u ≤ 1 / 250)
    (he : 0 ≤ eta) (hk : k ≤ 101 / 100 * u) (ha : 0 ≤ a) (hb : 0 ≤ b) (hab : a + b ≤ 1 + k)
    (hs : 0 ≤ s)
    (hP : P ≤ a * s * (1 + u) + eta) (hQ : Q ≤ x * b * (1 + u) + eta)
    (hy : y ≤ (P + Q) * (1 + u) + eta) :
    y ≤ max s x * (1 + 4 * u) + 4 * eta := by
  have hM1 : s ≤ max s x := le_max_left _ _
  have hM2 : x ≤ max s x := le_max_right _ _
  generalize max s x = M at *
  have hM0 : 0 ≤ M := le_trans hs hM1
  have h1 : a * s + x * b ≤ (1 + k) * M := by
    have : a * s ≤ a * M := mul_le_mul_of_nonneg_left hM1 ha
    have : x * b ≤ M * b := mul_le_mul_of_nonneg_right hM2 hb
    have : (a + b) * M ≤ (1 + k) * M := mul_le_mul_of_nonneg_right hab hM0
    nlinarith
  have h2 : P + Q ≤ (1 + k) * M * (1 + u) + 2 * eta := by
    have : (a * s + x * b) * (1 + u) ≤ (1 + k) * M * (1 + u) :=
      mul_le_mul_of_nonneg_right h1 (by linarith)
    nlinarith
  have h3 : y ≤ ((1 + k) * M * (1 + u) + 2 * eta) * (1 + u) + eta := by
    have : (P + Q) * (1 + u) ≤ ((1 + k) * M * (1 + u) + 2 * eta) * (1 + u) :=
      mul_le_mul_of_nonneg_right h2 (by linarith)
    linarith
  have h4 : (1 + k) * ((1 + u) * (1 + u)) ≤ 1 + 4 * u := by
    have hk' : 1 + k ≤ 1 + 101 / 100 * u := by linarith
    have : (1 + k) * ((1 + u) * (1 + u)) ≤ (1 + 101 / 100 * u) * ((1 + u) * (1 + u)) :=
      mul_le_mul_of_nonneg_right hk' (by positivity)
    nlinarith [mul_nonneg hu0 hu0, mul_nonneg (mul_nonneg hu0 hu0) hu0]
  have h5 : (1 + k) * ((1 + u) * (1 + u)) * M ≤ (1 + 4 * u) * M :=
    mul_le_mul_of_nonneg_right h4 hM0
  have h6 : 2 * eta * (1 + u) + eta ≤ 4 * eta := by nlinarith
  nlinarith

theorem ema_lower_core (u eta k a b s x P Q y : Rat) (hu0 : 0 ≤ u) (hu : u ≤ 1 / 250)
    (he : 0 ≤ eta) (hk : k ≤ 2 * u) (ha : 0 ≤ a) (hb : 0 ≤ b) (hab : 1 - k ≤ a + b)
    (hs : 0 ≤ s) (hx : 0 ≤ x)
    (hP : a * s * (1 - u) - eta ≤ P) (hQ : x * b * (1 - u) - eta ≤ Q)
    (hy : (P + Q) * (1 - u) - eta ≤ y) :
    min s x * (1 - 4 * u) - 4 * eta ≤ y := by
  have hM1 : min s x ≤ s := min_le_left _ _
  have hM2 : min s x ≤ x := min_le_right _ _
  have hM0 : 0 ≤ min s x := le_min hs hx
  generalize min s x = M at *
  have hu1 : 0 ≤ 1 - u := by linarith
  have h1 : (1 - k) * M ≤ a * s + x * b := by
    have : a * M ≤ a * s := mul_le_mul_of_nonneg_left hM1 ha
    have : M * b ≤ x * b := mul_le_mul_of_nonneg_right hM2 hb
    have : (1 - k) * M ≤ (a + b) * M := mul_le_mul_of_nonneg_right hab hM0
    nlinarith
  have h2 : (1 - k) * M * (1 - u) - 2 * eta ≤ P + Q := by
    have : (1 - k) * M * (1 - u) ≤ (a * s + x * b) * (1 - u) :=
      mul_le_mul_of_nonneg_right h1 hu1
    nlinarith
  have h3 : ((1 - k) * M * (1 - u) - 2 * eta) * (1 - u) - eta ≤ y := by
    have : ((1 - k) * M * (1 - u) - 2 * eta) * (1 - u) ≤ (P + Q) * (1 - u) :=
      mul_le_mul_of_nonneg_right h2 hu1
    linarith
  have h4 : 1 - 4 * u ≤ (1 - k) * ((1 - u) * (1 - u)) := by
    have hk' : 1 - 2 * u ≤ 1 - k := by linarith
    have : (1 - 2 * u) * ((1 - u) * (1 - u)) ≤ (1 - k) * ((1 - u) * (1 - u)) :=
      mul_le_mul_of_nonneg_right hk' (by positivity)
    nlinarith [mul_nonneg hu0 hu0, mul_nonneg (mul_nonneg hu0 hu0) hu0]
  have h5 : (1 - 4 * u) * M ≤ (1 - k) * ((1 - u) * (1 - u)) * M :=
    mul_le_mul_of_nonneg_right h4 hM0
  have h6 : 2 * eta * (1 - u) + eta ≤ 4 * eta := by nlinarith
  nlinarith

/-! ### infinities never become finite again -/

theorem fl_pinf_work (F : Fmt) (hF : WorkFmt F) : F.fl .pinf = .pinf := by
  rcases hF.cases with rfl | rfl | rfl <;> decide

theorem fl_ninf_work (F : Fmt) (hF : WorkFmt F) : F.fl .ninf = .ninf := by
  rcases hF.cases with rfl | rfl | rfl <;> decide

theorem fl_nan_work (F : Fmt) (hF : WorkFmt F) : F.fl .nan = .nan := by
  rcases hF.cases with rfl | rfl | rfl <;> decide

/-- a finite sum has finite summands -/
theorem add_fin_inv (F : Fmt) (hF : WorkFmt F) (A B : FV) (y : Rat) (h : F.add A B = .fin y) :
    ∃ p q, A = .fin p ∧ B = .fin q := by
  unfold Fmt.add at h
  cases A <;> cases B <;>
    first
    | exact ⟨_, _, rfl, rfl⟩
    | (simp only [FV.addX, fl_pinf_work F hF, fl_ninf_work F hF, fl_nan_work F hF] at h
       exact absurd h (by simp))

end Quanto

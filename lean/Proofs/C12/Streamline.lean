import Quanto.Streamline
namespace Quanto

theorem get_set_same (t : QActTable) (m : Nat) (v : Bool) : (t.set m v).get m = v := by
  simp [QActTable.set, QActTable.get]

theorem get_set_other (t : QActTable) (m k : Nat) (v : Bool) (h : k ≠ m) :
    (t.set m v).get k = t.get k := by
  unfold QActTable.set QActTable.get
  have hkm : (m == k) = false := by simp [Ne.symm h]
  simp only [List.find?_cons, hkm]
  congr 1
  induction t with
  | nil => rfl
  | cons e t ih =>
    simp only [List.filter_cons]
    by_cases he : e.1 = m
    · have : (e.1 != m) = false := by simp [he]
      have hek : (e.1 == k) = false := by simp [he, Ne.symm h]
      simp [this, hek, ih]
    · have : (e.1 != m) = true := by simp [he]
      simp only [this, if_true, List.find?_cons]
      cases hek : (e.1 == k) <;> simp [ih]

/-- one argument of one call -/
theorem get_step (t : QActTable) (q : Bool) (m k : Nat) :
    (if q then t.set m true else t.set m (t.get m)).get k = (t.get k || (q && m == k)) := by
  by_cases hk : k = m
  · subst hk
    cases q <;> simp [get_set_same]
  · have hmk : (m == k) = false := by simp [Ne.symm hk]
    cases q <;> simp [get_set_other _ _ _ _ hk, hmk]

theorem get_recordCall (t : QActTable) (c : FnCall) (k : Nat) :
    (recordCall t c).get k = (t.get k || (c.qinput && c.quantizedOutput && c.srcs.contains k)) := by
  unfold recordCall
  cases hq : c.qinput with
  | false => simp
  | true =>
  simp only [if_true, Bool.true_and]
  induction c.srcs generalizing t with
  | nil => simp
  | cons m ms ih =>
    simp only [List.foldl_cons]
    rw [ih, get_step]
    have hmk : (m == k) = (k == m) := by
      by_cases h : m = k
      · subst h; rfl
      · have h' : k ≠ m := fun e => h e.symm
        rw [beq_eq_false_iff_ne.mpr h, beq_eq_false_iff_ne.mpr h']
    rw [List.contains_cons, hmk]
    cases c.quantizedOutput <;> cases t.get k <;> cases (k == m) <;> simp

theorem get_recordCalls (t : QActTable) (cs : List FnCall) (k : Nat) :
    (recordCalls t cs).get k = (t.get k || requiredBy cs k) := by
  unfold recordCalls requiredBy
  induction cs generalizing t with
  | nil => simp
  | cons c cs ih =>
    simp only [List.foldl_cons, List.any_cons]
    rw [ih, get_recordCall, Bool.or_assoc]

end Quanto

/-
Helper lemmas for the C14 configuration-validation theorems (`Proofs/Properties/C14.lean`):
unfolding equations of the validators and the list facts behind the keepdim scale shape.
-/
import Quanto.Spec.C06
namespace Quanto.C14

/-! ### small list facts used by the scale-shape theorem -/

theorem all_one_of_filter_nil :
    ∀ l : List Nat, l.filter (· ≠ 1) = [] → l = List.replicate l.length 1
  | [], _ => rfl
  | x :: xs, h => by
    by_cases hx : x = 1
    · subst hx
      have : xs.filter (· ≠ 1) = [] := by simpa using h
      rw [List.length_cons, List.replicate_succ, ← all_one_of_filter_nil xs this]
    · simp [hx] at h

theorem squeezedRank_cons (x : Nat) (xs : List Nat) :
    squeezedRank (x :: xs) = (if x = 1 then 0 else 1) + squeezedRank xs := by
  unfold squeezedRank
  by_cases hx : x = 1 <;> simp [hx] <;> omega

theorem squeezedRank_concat (l : List Nat) (d : Nat) :
    squeezedRank (l ++ [d]) = squeezedRank l + (if d = 1 then 0 else 1) := by
  unfold squeezedRank
  by_cases hd : d = 1 <;> simp [List.filter_append, hd]

theorem keepdim_head (l : List Nat) (d : Nat) (hd : d ≠ 1)
    (hh : l.headD 0 = d) (hr : squeezedRank l ≤ 1) (hl : 1 ≤ l.length) :
    l = d :: List.replicate (l.length - 1) 1 := by
  cases l with
  | nil => simp at hl
  | cons x xs =>
    simp only [List.headD_cons] at hh
    subst hh
    have hf : xs.filter (· ≠ 1) = [] := by
      rw [squeezedRank_cons, if_neg hd] at hr
      unfold squeezedRank at hr
      exact List.eq_nil_of_length_eq_zero (by omega)
    have := all_one_of_filter_nil xs hf
    simp only [List.length_cons, Nat.add_sub_cancel]
    rw [← this]

theorem keepdim_last (l : List Nat) (d : Nat) (hd : d ≠ 1)
    (hh : l.getLastD 0 = d) (hr : squeezedRank l ≤ 1) (hl : 1 ≤ l.length) :
    l = List.replicate (l.length - 1) 1 ++ [d] := by
  have hne : l ≠ [] := by intro h; subst h; simp at hl
  have hsplit := List.dropLast_concat_getLast hne
  have hlast : l.getLast hne = d := by
    rw [← hh]; cases l with
    | nil => exact absurd rfl hne
    | cons x xs => rw [List.getLast_eq_getLastD, List.getLastD_cons]
  rw [hlast] at hsplit
  have hf : l.dropLast.filter (· ≠ 1) = [] := by
    rw [← hsplit, squeezedRank_concat, if_neg hd] at hr
    unfold squeezedRank at hr
    exact List.eq_nil_of_length_eq_zero (by omega)
  have := all_one_of_filter_nil l.dropLast hf
  rw [List.length_dropLast] at this
  rw [← this]
  exact hsplit.symm

/-! ### unfolding equations -/

theorem validateWeight_some (shape : List Nat) (q : QType) (a : Int) (gs : Option Nat)
    (opt : OptFamily) :
    validateWeight shape q (some a) gs opt =
      if a ≠ 0 ∧ a ≠ -1 then .error .valueError else
      if q.bits = 8 then
        if opt = .affine then .error .valueError else
        if gs.isSome then .error .valueError else
        if dimAt shape a = 1 then .ok ⟨q, none, none⟩ else
        if shape.length = 1 then .error .valueError else
        .ok ⟨q, some (a = 0), none⟩
      else
        if opt = .symmetric then .error .valueError else
        match gs with
        | none => .ok ⟨q, some (a = 0), none⟩
        | some g =>
          match groupShape shape (a = 0) g with
          | none => .error .valueError
          | some _ => .ok ⟨q, some (a = 0), some g⟩ := rfl

theorem autoGroup_eq (n : Nat) :
    autoGroup n =
      if n > 128 then
        if n % 128 = 0 then some 128 else if n % 96 = 0 then some 96 else
        if n % 64 = 0 then some 64 else if n % 32 = 0 then some 32 else none
      else none := by
  unfold autoGroup
  simp only [autoGroupLoop]
  by_cases hn : n > 128
  · by_cases h1 : n % 128 = 0 <;> by_cases h2 : n % 96 = 0 <;> by_cases h3 : n % 64 = 0 <;>
      by_cases h4 : n % 32 = 0 <;> simp [hn, h1, h2, h3, h4]
  · simp [hn]

/-- decidable equality of `Except` values (core has none); used as a local instance by the
non-vacuity examples -/
@[instance_reducible]
def exceptDecEq {ε α : Type} [DecidableEq ε] [DecidableEq α] : DecidableEq (Except ε α)
  | .ok a, .ok b => if h : a = b then isTrue (by rw [h]) else isFalse (fun e => h (by cases e; rfl))
  | .error a, .error b =>
    if h : a = b then isTrue (by rw [h]) else isFalse (fun e => h (by cases e; rfl))
  | .ok _, .error _ => isFalse (fun e => by cases e)
  | .error _, .ok _ => isFalse (fun e => by cases e)

end Quanto.C14

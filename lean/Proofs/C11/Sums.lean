/-
Helper lemmas for property C11: algebra of the finite sum `sumTo` (a left fold over `List.range`)
used by the explicit backward of the quantized linear.
-/
import Quanto.Grad
import Mathlib.Tactic.Ring
import Mathlib.Tactic.Linarith
import Mathlib.Algebra.Order.Field.Rat

namespace Quanto

/-- the accumulator of the fold can be pulled out -/
theorem sumTo_foldl_acc (l : List Nat) (f : Nat → Rat) (a : Rat) :
    l.foldl (fun a k => a + f k) a = a + l.foldl (fun a k => a + f k) 0 := by
  induction l generalizing a with
  | nil => simp
  | cons x xs ih =>
    simp only [List.foldl_cons]
    rw [ih (a + f x), ih (0 + f x)]
    ring

@[simp] theorem sumTo_zero (f : Nat → Rat) : sumTo 0 f = 0 := by
  simp [sumTo]

theorem sumTo_succ (n : Nat) (f : Nat → Rat) : sumTo (n + 1) f = sumTo n f + f n := by
  simp [sumTo, List.range_succ, List.foldl_append]

theorem sumTo_congr {n : Nat} {f g : Nat → Rat} (h : ∀ i, i < n → f i = g i) :
    sumTo n f = sumTo n g := by
  induction n with
  | zero => simp
  | succ n ih =>
    rw [sumTo_succ, sumTo_succ, ih (fun i hi => h i (Nat.lt_succ_of_lt hi)), h n (Nat.lt_succ_self n)]

theorem sumTo_const_zero (n : Nat) : sumTo n (fun _ => 0) = 0 := by
  induction n with
  | zero => simp
  | succ n ih => rw [sumTo_succ, ih]; ring

theorem sumTo_eq_zero {n : Nat} {f : Nat → Rat} (h : ∀ i, i < n → f i = 0) : sumTo n f = 0 := by
  rw [sumTo_congr h, sumTo_const_zero]

theorem sumTo_add (n : Nat) (f g : Nat → Rat) :
    sumTo n (fun i => f i + g i) = sumTo n f + sumTo n g := by
  induction n with
  | zero => simp
  | succ n ih => rw [sumTo_succ, sumTo_succ, sumTo_succ, ih]; ring

theorem sumTo_mul_left (n : Nat) (c : Rat) (f : Nat → Rat) :
    sumTo n (fun i => c * f i) = c * sumTo n f := by
  induction n with
  | zero => simp
  | succ n ih => rw [sumTo_succ, sumTo_succ, ih]; ring

theorem sumTo_mul_right (n : Nat) (c : Rat) (f : Nat → Rat) :
    sumTo n (fun i => f i * c) = sumTo n f * c := by
  induction n with
  | zero => simp
  | succ n ih => rw [sumTo_succ, sumTo_succ, ih]; ring

/-- Fubini for two nested finite sums -/
theorem sumTo_comm (N M : Nat) (f : Nat → Nat → Rat) :
    sumTo N (fun i => sumTo M (fun j => f i j)) = sumTo M (fun j => sumTo N (fun i => f i j)) := by
  induction N with
  | zero => simp [sumTo_const_zero]
  | succ N ih =>
    rw [sumTo_succ, ih, ← sumTo_add]
    exact sumTo_congr (fun j _ => (sumTo_succ N (fun i => f i j)).symm)

/-- splitting the index range -/
theorem sumTo_add_index (m n : Nat) (f : Nat → Rat) :
    sumTo (m + n) f = sumTo m f + sumTo n (fun j => f (m + j)) := by
  induction n with
  | zero => simp
  | succ n ih => rw [← Nat.add_assoc, sumTo_succ, sumTo_succ, ih]; ring

/-- row-major flattening of two leading dimensions: `i = b1 * B2 + b2` -/
theorem sumTo_flatten (B1 B2 : Nat) (f : Nat → Rat) :
    sumTo (B1 * B2) f = sumTo B1 (fun b1 => sumTo B2 (fun b2 => f (b1 * B2 + b2))) := by
  induction B1 with
  | zero => simp
  | succ B1 ih => rw [Nat.succ_mul, sumTo_add_index, sumTo_succ, ih]

/-- sum of an indicator-weighted function -/
theorem sumTo_indicator (n i0 : Nat) (g : Nat → Rat) :
    sumTo n (fun i => if i = i0 then g i else 0) = if i0 < n then g i0 else 0 := by
  induction n with
  | zero => simp
  | succ n ih =>
    rw [sumTo_succ, ih]
    by_cases h1 : i0 < n
    · have h2 : ¬ n = i0 := by omega
      have h3 : i0 < n + 1 := by omega
      simp [h1, h2, h3]
    · by_cases h2 : n = i0
      · subst h2; simp
      · have h3 : ¬ i0 < n + 1 := by omega
        simp [h1, h2, h3]

theorem sumTo_indicator_lt {n i0 : Nat} (h : i0 < n) (g : Nat → Rat) :
    sumTo n (fun i => if i = i0 then g i else 0) = g i0 := by
  rw [sumTo_indicator, if_pos h]

/-! ### inner products -/

theorem inner2_zero_right (N M : Nat) (a : Nat → Nat → Rat) : inner2 N M a (fun _ _ => 0) = 0 := by
  unfold inner2
  exact sumTo_eq_zero (fun i _ => sumTo_eq_zero (fun j _ => by ring))

theorem inner1_zero_right (M : Nat) (a : Nat → Rat) : inner1 M a (fun _ => 0) = 0 := by
  unfold inner1
  exact sumTo_eq_zero (fun j _ => by ring)

/-- pairing with the unit matrix `δ_{(i0,j0)}` reads off one entry -/
theorem inner2_indicator {N M i0 j0 : Nat} (hi : i0 < N) (hj : j0 < M) (a : Nat → Nat → Rat) :
    inner2 N M a (fun i j => if i = i0 ∧ j = j0 then 1 else 0) = a i0 j0 := by
  unfold inner2
  have h1 : ∀ i, i < N →
      sumTo M (fun j => a i j * (if i = i0 ∧ j = j0 then 1 else 0))
        = if i = i0 then a i j0 else 0 := by
    intro i _
    by_cases h : i = i0
    · subst h
      simp only [true_and, if_true]
      rw [← sumTo_indicator_lt hj (fun j => a i j)]
      exact sumTo_congr (fun j _ => by by_cases hj' : j = j0 <;> simp [hj'])
    · simp only [h, false_and, if_false]
      exact sumTo_eq_zero (fun j _ => by ring)
  rw [sumTo_congr h1, sumTo_indicator_lt hi (fun i => a i j0)]

theorem inner1_indicator {M j0 : Nat} (hj : j0 < M) (a : Nat → Rat) :
    inner1 M a (fun j => if j = j0 then 1 else 0) = a j0 := by
  unfold inner1
  rw [← sumTo_indicator_lt hj a]
  exact sumTo_congr (fun j _ => by by_cases hj' : j = j0 <;> simp [hj'])

end Quanto

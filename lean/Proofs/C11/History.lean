/-
Helper definitions / lemmas for property C11 (state machine part): the versions a history of
events is *expected* to use on an unfrozen module, and local facts about `forwardVersions`.
-/
import Quanto.Module

namespace Quanto

/-- reference semantics of an unfrozen module: a forward uses the current float version, an
optimizer step produces the next version, every other event leaves the weight alone -/
def expectedVersions (v : Nat) : List LifeEvent → List Nat
  | [] => []
  | .forward :: rest => v :: expectedVersions v rest
  | .optimizerStep :: rest => expectedVersions (v + 1) rest
  | _ :: rest => expectedVersions v rest

theorem forwardVersions_append_float (v : Nat) (pre post : List LifeEvent)
    (h : ∀ e ∈ pre, e ≠ .freeze) :
    forwardVersions (.float v) (pre ++ post)
      = forwardVersions (.float v) pre
          ++ forwardVersions (.float (v + pre.count .optimizerStep)) post := by
  induction pre generalizing v with
  | nil => simp [forwardVersions]
  | cons e es ih =>
    have hes : ∀ e ∈ es, e ≠ .freeze := fun e he => h e (List.mem_cons_of_mem _ he)
    have he : e ≠ .freeze := h e List.mem_cons_self
    cases e with
    | freeze => exact absurd rfl he
    | forward => simp [forwardVersions, WState.qweightVersion, ih v hes]
    | optimizerStep =>
      simp [forwardVersions, WState.step, ih (v + 1) hes, Nat.add_assoc, Nat.add_comm 1]
    | deepcopy => simp [forwardVersions, WState.step, ih v hes]
    | toDevice => simp [forwardVersions, WState.step, ih v hes]

theorem step_frozen (v : Nat) (e : LifeEvent) : (WState.frozen v).step e = .frozen v := by
  cases e <;> rfl

end Quanto

/-
Helper lemmas for property C04 (sub-byte packing is lossless, dense, identical across kernels).
-/
import Quanto.Spec.C04
namespace Quanto

/-! ### `T.ofFn` -/

theorem T.shape_ofFn {α : Type} (s : List Nat) (f : Nat → α) : (T.ofFn s f).shape = s := rfl

theorem T.size_ofFn {α : Type} (s : List Nat) (f : Nat → α) : (T.ofFn s f).data.size = prod s := by
  simp [T.ofFn]

theorem T.get_ofFn {α : Type} [Inhabited α] (s : List Nat) (f : Nat → α) (n : Nat) (h : n < prod s) :
    (T.ofFn s f).get n = f n := by
  simp [T.ofFn, T.get, h]

theorem T.ofFn_congr {α : Type} (s : List Nat) (f g : Nat → α) (h : ∀ n, n < prod s → f n = g n) :
    T.ofFn s f = T.ofFn s g := by
  unfold T.ofFn
  congr 1
  apply Array.ext
  · simp
  · intro i h1 h2
    simp at h1
    simp [h i h1]

theorem T.ofFn_congr_shape {α : Type} (s s' : List Nat) (f g : Nat → α) (hs : s = s')
    (h : ∀ n, n < prod s → f n = g n) : T.ofFn s f = T.ofFn s' g := by
  subst hs; exact T.ofFn_congr s f g h

/-! ### index arithmetic -/

theorem idx_div (a b K : Nat) (hb : b < K) : (a * K + b) / K = a := by
  rw [Nat.add_comm, Nat.add_mul_div_right _ _ (by omega), Nat.div_eq_of_lt hb, Nat.zero_add]

theorem idx_mod (a b K : Nat) (hb : b < K) : (a * K + b) % K = b := by
  rw [Nat.add_comm, Nat.add_mul_mod_self_right, Nat.mod_eq_of_lt hb]

/-! ### `vpi`, `rowDim`, `packIt` -/

theorem vpi_four : vpi 4 = 2 := by decide
theorem vpi_two : vpi 2 = 4 := by decide

theorem rowDim_four (R : Nat) : rowDim 4 R = (R + 1) / 2 := by simp [rowDim, vpi_four]
theorem rowDim_two (R : Nat) : rowDim 2 R = (R + 3) / 4 := by simp [rowDim, vpi_two]

theorem rowDim_eq_ceilDiv (bits R : Nat) (hb : bits = 2 ∨ bits = 4) :
    rowDim bits R = ceilDiv (R * bits) 8 := by
  rcases hb with rfl | rfl
  · rw [rowDim_two]; unfold ceilDiv; omega
  · rw [rowDim_four]; unfold ceilDiv; omega

theorem rowDim_pos (bits R : Nat) (hb : bits = 2 ∨ bits = 4) (hR : 1 ≤ R) : 0 < rowDim bits R := by
  rcases hb with rfl | rfl
  · rw [rowDim_two]; omega
  · rw [rowDim_four]; omega

/-- the packed rows cover all `R` input rows -/
theorem le_vpi_mul_rowDim (bits R : Nat) (hb : bits = 2 ∨ bits = 4) : R ≤ vpi bits * rowDim bits R := by
  rcases hb with rfl | rfl
  · rw [rowDim_two, vpi_two]; omega
  · rw [rowDim_four, vpi_four]; omega

/-- the loop bound `it` is sufficient: `it * row_dim ≥ R` -/
theorem packIt_mul_rowDim_ge (bits R : Nat) (hb : bits = 2 ∨ bits = 4) :
    R ≤ packIt bits R * rowDim bits R := by
  unfold packIt
  rcases Nat.le_total (vpi bits) (R / rowDim bits R + 1) with h | h
  · rw [Nat.min_eq_left h]; exact le_vpi_mul_rowDim bits R hb
  · rw [Nat.min_eq_right h]
    rcases Nat.eq_zero_or_pos (rowDim bits R) with h0 | hpos
    · have := le_vpi_mul_rowDim bits R hb
      rw [h0] at this ⊢; omega
    · exact Nat.le_of_lt (Nat.lt_mul_of_div_lt (Nat.lt_succ_self _) hpos)

/-! ### the `|=` loop -/

/-- field `i` of the packed byte at row `r` -/
def fld (bits R : Nat) (col : Nat → Nat) (r i : Nat) : Nat :=
  if i * rowDim bits R + r < R then col (i * rowDim bits R + r) else 0

theorem fld_lt (bits R : Nat) (col : Nat → Nat) (h : ∀ j, j < R → col j < 2 ^ bits) (r i : Nat) :
    fld bits R col r i < 2 ^ bits := by
  unfold fld; split
  · exact h _ ‹_›
  · exact Nat.two_pow_pos bits

theorem packTerm_eq_fld (bits R : Nat) (col : Nat → Nat) (r i : Nat) (hr : r < rowDim bits R) :
    packTerm bits R col r i = (fld bits R col r i <<< (bits * i)) % 256 := by
  unfold packTerm fld
  simp only []
  by_cases h : i * rowDim bits R + r < R
  · rw [if_pos h, if_pos (by omega)]
  · rw [if_neg h, if_neg (by omega)]; simp

theorem packTerm_lt (bits R : Nat) (col : Nat → Nat) (r i : Nat) : packTerm bits R col r i < 256 := by
  unfold packTerm
  simp only []
  split
  · exact Nat.mod_lt _ (by decide)
  · decide

theorem foldl_or_lt (f : Nat → Nat) (hf : ∀ i, f i < 256) (l : List Nat) (acc : Nat) (ha : acc < 256) :
    l.foldl (fun acc i => acc ||| f i) acc < 256 := by
  induction l generalizing acc with
  | nil => simpa using ha
  | cons x xs ih =>
    simp only [List.foldl_cons]
    exact ih _ (Nat.or_lt_two_pow (n := 8) ha (hf x))

/-- every packed byte fits a `uint8` -/
theorem packByte_lt (bits R : Nat) (col : Nat → Nat) (r : Nat) : packByte bits R col r < 256 :=
  foldl_or_lt _ (packTerm_lt bits R col r) _ 0 (by decide)

/-- iterations at or beyond `it` would contribute nothing -/
theorem packTerm_beyond (bits R : Nat) (hb : bits = 2 ∨ bits = 4) (col : Nat → Nat) (r i : Nat)
    (hi : packIt bits R ≤ i) : packTerm bits R col r i = 0 := by
  have h1 := packIt_mul_rowDim_ge bits R hb
  have h2 : packIt bits R * rowDim bits R ≤ i * rowDim bits R := Nat.mul_le_mul_right _ hi
  unfold packTerm
  simp only []
  rw [if_neg (by omega)]

theorem foldl_or_range_extend (f : Nat → Nat) (n m : Nat) (h : n ≤ m) (hz : ∀ i, n ≤ i → f i = 0) :
    (List.range m).foldl (fun acc i => acc ||| f i) 0 = (List.range n).foldl (fun acc i => acc ||| f i) 0 := by
  induction m with
  | zero => have : n = 0 := by omega
            subst this; rfl
  | succ k ih =>
    rcases Nat.lt_or_ge k n with hk | hk
    · have : n = k + 1 := by omega
      subst this; rfl
    · rw [List.range_succ, List.foldl_append, ih hk]
      simp [hz k hk]

/-- closed form: the loop may as well run over all `8 / bits` fields -/
theorem packByte_eq_full (bits R : Nat) (hb : bits = 2 ∨ bits = 4) (col : Nat → Nat) (r : Nat) :
    packByte bits R col r =
      (List.range (vpi bits)).foldl (fun acc i => acc ||| packTerm bits R col r i) 0 := by
  unfold packByte
  exact (foldl_or_range_extend _ _ _ (Nat.min_le_left _ _)
    (fun i hi => packTerm_beyond bits R hb col r i hi)).symm

theorem packByte_four (R : Nat) (col : Nat → Nat) (r : Nat) (hr : r < rowDim 4 R) :
    packByte 4 R col r =
      (0 ||| (fld 4 R col r 0 <<< (4 * 0)) % 256) ||| (fld 4 R col r 1 <<< (4 * 1)) % 256 := by
  rw [packByte_eq_full 4 R (Or.inr rfl), vpi_four]
  simp only [List.range_succ, List.range_zero, List.nil_append, List.cons_append, List.foldl_cons,
    List.foldl_nil, packTerm_eq_fld 4 R col r _ hr]

theorem packByte_two (R : Nat) (col : Nat → Nat) (r : Nat) (hr : r < rowDim 2 R) :
    packByte 2 R col r =
      (((0 ||| (fld 2 R col r 0 <<< (2 * 0)) % 256) ||| (fld 2 R col r 1 <<< (2 * 1)) % 256)
        ||| (fld 2 R col r 2 <<< (2 * 2)) % 256) ||| (fld 2 R col r 3 <<< (2 * 3)) % 256 := by
  rw [packByte_eq_full 2 R (Or.inl rfl), vpi_two]
  simp only [List.range_succ, List.range_zero, List.nil_append, List.cons_append, List.foldl_cons,
    List.foldl_nil, packTerm_eq_fld 2 R col r _ hr]

/-! ### per-byte facts -/

theorem byte_four : ∀ a b : Fin 16, ∀ i : Fin 2,
    ((((0 ||| (a.val <<< (4 * 0)) % 256) ||| (b.val <<< (4 * 1)) % 256) &&& pyMask 4 i.val) >>> (4 * i.val))
      = (if i.val = 0 then a.val else b.val) := by
  decide

theorem byte_two : ∀ a b c d : Fin 4, ∀ i : Fin 4,
    ((((((0 ||| (a.val <<< (2 * 0)) % 256) ||| (b.val <<< (2 * 1)) % 256) ||| (c.val <<< (2 * 2)) % 256)
        ||| (d.val <<< (2 * 3)) % 256) &&& pyMask 2 i.val) >>> (2 * i.val))
      = (if i.val = 0 then a.val else if i.val = 1 then b.val else if i.val = 2 then c.val else d.val) := by
  decide

/-! ### one column round trip -/

theorem fld_at (bits R : Nat) (col : Nat → Nat) (j : Nat) (hj : j < R) (k : Nat)
    (hk : j / rowDim bits R = k) : fld bits R col (j % rowDim bits R) k = col j := by
  have hdm := Nat.div_add_mod' j (rowDim bits R)
  rw [hk] at hdm
  unfold fld
  rw [hdm, if_pos hj]

theorem roundtrip_column_four (R : Nat) (col : Nat → Nat) (h : ∀ j, j < R → col j < 2 ^ 4)
    (j : Nat) (hj : j < R) :
    (packByte 4 R col (j % rowDim 4 R) &&& pyMask 4 (j / rowDim 4 R)) >>> (4 * (j / rowDim 4 R)) = col j := by
  have hpos : 0 < rowDim 4 R := rowDim_pos 4 R (Or.inr rfl) (by omega)
  have hi : j / rowDim 4 R < 2 := by
    rw [Nat.div_lt_iff_lt_mul hpos]
    have := le_vpi_mul_rowDim 4 R (Or.inr rfl)
    rw [vpi_four] at this; omega
  have h0 := fld_lt 4 R col h (j % rowDim 4 R) 0
  have h1 := fld_lt 4 R col h (j % rowDim 4 R) 1
  have key := byte_four ⟨_, h0⟩ ⟨_, h1⟩ ⟨_, hi⟩
  simp only at key
  rw [packByte_four R col _ (Nat.mod_lt _ hpos), key]
  have hc : j / rowDim 4 R = 0 ∨ j / rowDim 4 R = 1 := by
    generalize j / rowDim 4 R = k at hi ⊢; omega
  rcases hc with h' | h'
  · rw [if_pos h']; exact fld_at 4 R col j hj 0 h'
  · rw [if_neg (by omega)]; exact fld_at 4 R col j hj 1 h'

theorem roundtrip_column_two (R : Nat) (col : Nat → Nat) (h : ∀ j, j < R → col j < 2 ^ 2)
    (j : Nat) (hj : j < R) :
    (packByte 2 R col (j % rowDim 2 R) &&& pyMask 2 (j / rowDim 2 R)) >>> (2 * (j / rowDim 2 R)) = col j := by
  have hpos : 0 < rowDim 2 R := rowDim_pos 2 R (Or.inl rfl) (by omega)
  have hi : j / rowDim 2 R < 4 := by
    rw [Nat.div_lt_iff_lt_mul hpos]
    have := le_vpi_mul_rowDim 2 R (Or.inl rfl)
    rw [vpi_two] at this; omega
  have h0 := fld_lt 2 R col h (j % rowDim 2 R) 0
  have h1 := fld_lt 2 R col h (j % rowDim 2 R) 1
  have h2 := fld_lt 2 R col h (j % rowDim 2 R) 2
  have h3 := fld_lt 2 R col h (j % rowDim 2 R) 3
  have key := byte_two ⟨_, h0⟩ ⟨_, h1⟩ ⟨_, h2⟩ ⟨_, h3⟩ ⟨_, hi⟩
  simp only at key
  rw [packByte_two R col _ (Nat.mod_lt _ hpos), key]
  have hc : j / rowDim 2 R = 0 ∨ j / rowDim 2 R = 1 ∨ j / rowDim 2 R = 2 ∨ j / rowDim 2 R = 3 := by
    generalize j / rowDim 2 R = k at hi ⊢; omega
  rcases hc with h' | h' | h' | h'
  · rw [if_pos h']; exact fld_at 2 R col j hj 0 h'
  · rw [if_neg (by omega), if_pos h']; exact fld_at 2 R col j hj 1 h'
  · rw [if_neg (by omega), if_neg (by omega), if_pos h']; exact fld_at 2 R col j hj 2 h'
  · rw [if_neg (by omega), if_neg (by omega), if_neg (by omega)]; exact fld_at 2 R col j hj 3 h'

theorem roundtrip_column (bits : Nat) (hb : bits = 2 ∨ bits = 4) (R : Nat) (col : Nat → Nat)
    (h : ∀ j, j < R → col j < 2 ^ bits) (j : Nat) (hj : j < R) :
    (packByte bits R col (j % rowDim bits R) &&& pyMask bits (j / rowDim bits R))
      >>> (bits * (j / rowDim bits R)) = col j := by
  rcases hb with rfl | rfl
  · exact roundtrip_column_two R col h j hj
  · exact roundtrip_column_four R col h j hj

/-! ### kernels -/

theorem cpp_byte_four : ∀ b : Fin 256, ∀ i : Fin 2,
    (b.val &&& ((Generated.cppUnpackTable 4).getD i.val (0, 0)).1) >>> ((Generated.cppUnpackTable 4).getD i.val (0, 0)).2
      = (b.val &&& pyMask 4 i.val) >>> (4 * i.val) := by
  decide +kernel

theorem cpp_byte_two : ∀ b : Fin 256, ∀ i : Fin 4,
    (b.val &&& ((Generated.cppUnpackTable 2).getD i.val (0, 0)).1) >>> ((Generated.cppUnpackTable 2).getD i.val (0, 0)).2
      = (b.val &&& pyMask 2 i.val) >>> (2 * i.val) := by
  decide +kernel

theorem cpp_table_length (bits : Nat) (hb : bits = 2 ∨ bits = 4) :
    (Generated.cppUnpackTable bits).length = vpi bits := by
  rcases hb with rfl | rfl <;> decide

theorem cpp_byte (bits : Nat) (hb : bits = 2 ∨ bits = 4) (b i : Nat) (hbyte : b < 256) (hi : i < vpi bits) :
    (b &&& ((Generated.cppUnpackTable bits).getD i (0, 0)).1) >>> ((Generated.cppUnpackTable bits).getD i (0, 0)).2
      = (b &&& pyMask bits i) >>> (bits * i) := by
  rcases hb with rfl | rfl
  · exact cpp_byte_two ⟨b, hbyte⟩ ⟨i, by rw [vpi_two] at hi; exact hi⟩
  · exact cpp_byte_four ⟨b, hbyte⟩ ⟨i, by rw [vpi_four] at hi; exact hi⟩

theorem unpackCpp_eq_unpackPy (bits : Nat) (hb : bits = 2 ∨ bits = 4) (p : T Nat)
    (hp : ∀ i, p.get i < 256) : unpackCpp bits p = unpackPy bits p := by
  unfold unpackCpp unpackPy
  simp only []
  apply T.ofFn_congr_shape
  · rw [cpp_table_length bits hb]
  · intro n hn
    rw [cpp_table_length bits hb] at hn
    apply cpp_byte bits hb _ _ (hp _)
    simp only [prod] at hn
    have hK : 0 < prod p.shape.tail := by
      rcases Nat.eq_zero_or_pos (prod p.shape.tail) with h0 | h0
      · rw [h0] at hn; omega
      · exact h0
    have hrd : 0 < p.shape.headD 0 := by
      rcases Nat.eq_zero_or_pos (p.shape.headD 0) with h0 | h0
      · rw [h0] at hn; omega
      · exact h0
    rw [Nat.div_lt_iff_lt_mul hrd, Nat.div_lt_iff_lt_mul hK]
    exact hn

theorem quantoUnpack_eq_unpackPy (bits : Nat) (hb : bits = 2 ∨ bits = 4) (e : Bool) (x : ExtOutcome)
    (p : T Nat) (hp : ∀ i, p.get i < 256) : quantoUnpack e x bits p = unpackPy bits p := by
  unfold quantoUnpack
  cases e <;> cases x <;> simp [unpackCpp_eq_unpackPy bits hb p hp]

/-! ### whole tensors -/

theorem T.get_ofFn_ge {α : Type} [Inhabited α] (s : List Nat) (f : Nat → α) (n : Nat) (h : prod s ≤ n) :
    (T.ofFn s f).get n = default := by
  simp [T.ofFn, T.get, h]

theorem packWeights_shape (bits : Nat) (t : T Nat) :
    (packWeights bits t).shape = rowDim bits (t.shape.headD 0) :: t.shape.tail := rfl

theorem packWeights_get_lt (bits : Nat) (t : T Nat) (i : Nat) : (packWeights bits t).get i < 256 := by
  unfold packWeights
  simp only []
  rcases Nat.lt_or_ge i (prod (rowDim bits (t.shape.headD 0) :: t.shape.tail)) with h | h
  · rw [T.get_ofFn _ _ _ h]; exact packByte_lt _ _ _ _
  · rw [T.get_ofFn_ge _ _ _ h]; decide

theorem get_lt_of_data (bits : Nat) (t : T Nat) (hv : ∀ i, i < t.data.size → t.data[i]! < 2 ^ bits) (i : Nat) :
    t.get i < 2 ^ bits := by
  rcases Nat.lt_or_ge i t.data.size with h | h
  · exact hv i h
  · have : t.get i = 0 := by simp [T.get, h]
    rw [this]; exact Nat.two_pow_pos bits

/-- value of the Python kernel applied to a packed tensor, at a position inside the original rows -/
theorem unpackPy_packWeights_get (bits : Nat) (hb : bits = 2 ∨ bits = 4) (t : T Nat)
    (hv : ∀ i, t.get i < 2 ^ bits) (n : Nat) (hn : n < t.shape.headD 0 * prod t.shape.tail) :
    (unpackPy bits (packWeights bits t)).get n = t.get n := by
  have hK : 0 < prod t.shape.tail := by
    rcases Nat.eq_zero_or_pos (prod t.shape.tail) with h0 | h0
    · rw [h0] at hn; omega
    · exact h0
  have hrow : n / prod t.shape.tail < t.shape.headD 0 := (Nat.div_lt_iff_lt_mul hK).2 hn
  have hR : 1 ≤ t.shape.headD 0 := Nat.lt_of_le_of_lt (Nat.zero_le _) hrow
  have hrd : 0 < rowDim bits (t.shape.headD 0) := rowDim_pos bits _ hb hR
  have hcover := le_vpi_mul_rowDim bits (t.shape.headD 0) hb
  have hmod : n % prod t.shape.tail < prod t.shape.tail := Nat.mod_lt _ hK
  unfold unpackPy
  simp only [packWeights_shape, List.headD_cons, List.tail_cons]
  rw [T.get_ofFn]
  · unfold packWeights
    simp only []
    rw [T.get_ofFn]
    · rw [idx_div _ _ _ hmod, idx_mod _ _ _ hmod]
      rw [roundtrip_column bits hb (t.shape.headD 0) _ (fun j _ => hv _) _ hrow]
      rw [Nat.div_add_mod']
    · simp only [prod]
      have h1 : n / prod t.shape.tail % rowDim bits (t.shape.headD 0) < rowDim bits (t.shape.headD 0) :=
        Nat.mod_lt _ hrd
      calc n / prod t.shape.tail % rowDim bits (t.shape.headD 0) * prod t.shape.tail + n % prod t.shape.tail
          < n / prod t.shape.tail % rowDim bits (t.shape.headD 0) * prod t.shape.tail + prod t.shape.tail :=
            Nat.add_lt_add_left hmod _
        _ = (n / prod t.shape.tail % rowDim bits (t.shape.headD 0) + 1) * prod t.shape.tail := by
            rw [Nat.add_mul, Nat.one_mul]
        _ ≤ rowDim bits (t.shape.headD 0) * prod t.shape.tail := Nat.mul_le_mul_right _ h1
  · simp only [prod]
    exact Nat.lt_of_lt_of_le hn (Nat.mul_le_mul_right _ hcover)

theorem narrow_unpackPy_packWeights (bits : Nat) (hb : bits = 2 ∨ bits = 4) (t : T Nat)
    (hne : t.shape ≠ []) (hwf : t.data.size = prod t.shape) (hv : ∀ i, t.get i < 2 ^ bits) :
    narrowRows (t.shape.headD 0) (unpackPy bits (packWeights bits t)) = t := by
  have hs : t.shape = t.shape.headD 0 :: t.shape.tail := by
    cases h : t.shape with
    | nil => exact absurd h hne
    | cons a as => rfl
  have hprod : prod t.shape = t.shape.headD 0 * prod t.shape.tail := by
    conv => lhs; rw [hs]
    rfl
  unfold narrowRows
  have hshape : (unpackPy bits (packWeights bits t)).shape.tail = t.shape.tail := rfl
  rw [hshape]
  cases t with
  | mk shape data =>
    simp only at hs hprod hwf hne ⊢
    unfold T.ofFn
    rw [T.mk.injEq]
    refine ⟨hs.symm, ?_⟩
    apply Array.ext
    · rw [Array.size_ofFn, hwf, hprod]; rfl
    · intro i h1 h2
      rw [Array.getElem_ofFn]
      simp only [Array.size_ofFn, prod] at h1
      show (unpackPy bits (packWeights bits ⟨shape, data⟩)).get i = data[i]
      rw [unpackPy_packWeights_get bits hb _ hv i h1]
      simp [T.get, h2]

end Quanto

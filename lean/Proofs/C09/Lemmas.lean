/-
Helper definitions and lemmas for property C09 (freeze keeps the quantized weight, frozen storage).
-/
import Quanto.Module
import Proofs.Properties.C03
import Proofs.Properties.C04
import Proofs.Properties.C14
namespace Quanto

/-! ### positions of forwards, optimizer steps seen by the float weight -/

/-- positions of the `forward` events of a history -/
def forwardPositions (evs : List LifeEvent) : List Nat :=
  (List.range evs.length).filter fun i => evs[i]? == some .forward

/-- number of optimizer steps that reached the float weight before event `i`: the
`optimizerStep` events among the first `i`, up to the first `freeze` -/
def stepsBefore (evs : List LifeEvent) (i : Nat) : Nat :=
  ((evs.take i).takeWhile (· != .freeze)).count .optimizerStep

namespace C09

/-! ### the weight state machine -/

theorem WState.qweightVersion_freeze (s : WState) : s.freeze.qweightVersion = s.qweightVersion := by
  cases s <;> rfl

theorem WState.qweightVersion_step (s : WState) (e : LifeEvent) (h : e ≠ .optimizerStep) :
    (s.step e).qweightVersion = s.qweightVersion := by
  cases e <;> cases s <;> first | rfl | exact absurd rfl h

theorem WState.step_frozen (v : Nat) (e : LifeEvent) : (WState.frozen v).step e = .frozen v := by
  cases e <;> rfl

theorem forwardVersions_cons_forward (s : WState) (r : List LifeEvent) :
    forwardVersions s (.forward :: r) = s.qweightVersion :: forwardVersions s r := by
  simp [forwardVersions]

theorem forwardVersions_cons_other (s : WState) (e : LifeEvent) (r : List LifeEvent) (h : e ≠ .forward) :
    forwardVersions s (e :: r) = forwardVersions (s.step e) r := by
  cases e <;> first | exact absurd rfl h | simp [forwardVersions]

theorem forwardVersions_no_step : ∀ (evs : List LifeEvent), (∀ e ∈ evs, e ≠ .optimizerStep) →
    ∀ (s : WState), ∀ v ∈ forwardVersions s evs, v = s.qweightVersion
  | [], _, _, v, hv => by simp [forwardVersions] at hv
  | e :: r, h, s, v, hv => by
    have hr : ∀ e ∈ r, e ≠ .optimizerStep := fun e' he' => h e' (List.mem_cons_of_mem _ he')
    by_cases he : e = .forward
    · subst he
      rw [forwardVersions_cons_forward] at hv
      rcases List.mem_cons.mp hv with rfl | hv
      · rfl
      · exact forwardVersions_no_step r hr s v hv
    · rw [forwardVersions_cons_other s e r he] at hv
      rw [forwardVersions_no_step r hr (s.step e) v hv]
      exact WState.qweightVersion_step s e (h e (List.mem_cons_self ..))

theorem forwardVersions_frozen (v : Nat) : ∀ (evs : List LifeEvent), ∀ w ∈ forwardVersions (.frozen v) evs, w = v
  | [], w, hw => by simp [forwardVersions] at hw
  | e :: r, w, hw => by
    by_cases he : e = .forward
    · subst he
      rw [forwardVersions_cons_forward] at hw
      rcases List.mem_cons.mp hw with rfl | hw
      · rfl
      · exact forwardVersions_frozen v r w hw
    · rw [forwardVersions_cons_other _ e r he, WState.step_frozen] at hw
      exact forwardVersions_frozen v r w hw

/-- number of forwards of a history -/
theorem forwardVersions_length : ∀ (evs : List LifeEvent) (s : WState),
    (forwardVersions s evs).length = evs.count .forward
  | [], _ => by simp [forwardVersions]
  | e :: r, s => by
    by_cases he : e = .forward
    · subst he; rw [forwardVersions_cons_forward]; simp [forwardVersions_length r s]
    · rw [forwardVersions_cons_other s e r he, forwardVersions_length r _]
      simp [he]

/-! ### counting optimizer steps -/

theorem takeWhile_all {α : Type} (p : α → Bool) : ∀ (l : List α), (∀ x ∈ l, p x = true) → l.takeWhile p = l
  | [], _ => rfl
  | x :: r, h => by
    rw [List.takeWhile_cons, if_pos (h x (List.mem_cons_self ..)),
      takeWhile_all p r fun y hy => h y (List.mem_cons_of_mem _ hy)]

theorem stepsBefore_no_freeze (evs : List LifeEvent) (h : ∀ e ∈ evs, e ≠ .freeze) (i : Nat) :
    stepsBefore evs i = (evs.take i).count .optimizerStep := by
  unfold stepsBefore
  congr 1
  apply takeWhile_all
  intro e he
  have := h e (List.mem_of_mem_take he)
  simpa using this

theorem forwardPositions_cons (e : LifeEvent) (r : List LifeEvent) :
    forwardPositions (e :: r) =
      (if e = .forward then [0] else []) ++ (forwardPositions r).map (· + 1) := by
  unfold forwardPositions
  rw [List.length_cons, List.range_succ_eq_map, List.filter_cons, List.filter_map]
  by_cases he : e = .forward
  · subst he; simp [Function.comp_def]
  · simp [Function.comp_def, he]

theorem stepsBefore_zero (evs : List LifeEvent) : stepsBefore evs 0 = 0 := by simp [stepsBefore]

theorem stepsBefore_cons_freeze (r : List LifeEvent) (i : Nat) : stepsBefore (.freeze :: r) i = 0 := by
  cases i <;> simp [stepsBefore]

theorem stepsBefore_cons_step (r : List LifeEvent) (i : Nat) :
    stepsBefore (.optimizerStep :: r) (i + 1) = stepsBefore r i + 1 := by
  simp [stepsBefore]

theorem stepsBefore_cons_other (e : LifeEvent) (r : List LifeEvent) (i : Nat)
    (h1 : e ≠ .freeze) (h2 : e ≠ .optimizerStep) :
    stepsBefore (e :: r) (i + 1) = stepsBefore r i := by
  cases e <;> first | exact absurd rfl h1 | exact absurd rfl h2 | simp [stepsBefore]

/-- frozen from the start: constant -/
theorem forwardVersions_frozen_eq (v : Nat) : ∀ evs : List LifeEvent,
    forwardVersions (.frozen v) evs = (forwardPositions evs).map fun _ => v
  | [] => by simp [forwardVersions, forwardPositions]
  | e :: r => by
    rw [forwardPositions_cons]
    by_cases he : e = .forward
    · subst he
      rw [forwardVersions_cons_forward, forwardVersions_frozen_eq v r]
      simp [WState.qweightVersion, Function.comp_def]
    · rw [forwardVersions_cons_other _ e r he, WState.step_frozen, forwardVersions_frozen_eq v r]
      simp [he, Function.comp_def]

/-- general form: every forward sees the initial version plus the optimizer steps taken before the
first freeze (and before that forward) -/
theorem forwardVersions_float_eq : ∀ (evs : List LifeEvent) (v : Nat),
    forwardVersions (.float v) evs = (forwardPositions evs).map fun i => v + stepsBefore evs i
  | [], v => by simp [forwardVersions, forwardPositions]
  | e :: r, v => by
    rw [forwardPositions_cons]
    cases e with
    | forward =>
      rw [forwardVersions_cons_forward, forwardVersions_float_eq r v]
      simp [WState.qweightVersion, stepsBefore_zero, List.map_map, Function.comp_def,
        stepsBefore_cons_other .forward r _ (by decide) (by decide)]
    | freeze =>
      rw [forwardVersions_cons_other _ _ r (by decide)]
      show forwardVersions (.frozen v) r = _
      rw [forwardVersions_frozen_eq]
      simp [List.map_map, Function.comp_def, stepsBefore_cons_freeze]
    | optimizerStep =>
      rw [forwardVersions_cons_other _ _ r (by decide)]
      show forwardVersions (.float (v + 1)) r = _
      rw [forwardVersions_float_eq r (v + 1)]
      simp [List.map_map, Function.comp_def, stepsBefore_cons_step]
      intro i _; omega
    | deepcopy =>
      rw [forwardVersions_cons_other _ _ r (by decide)]
      show forwardVersions (.float v) r = _
      rw [forwardVersions_float_eq r v]
      simp [List.map_map, Function.comp_def,
        stepsBefore_cons_other .deepcopy r _ (by decide) (by decide)]
    | toDevice =>
      rw [forwardVersions_cons_other _ _ r (by decide)]
      show forwardVersions (.float v) r = _
      rw [forwardVersions_float_eq r v]
      simp [List.map_map, Function.comp_def,
        stepsBefore_cons_other .toDevice r _ (by decide) (by decide)]

/-! ### storage arithmetic -/

theorem frozenPayloadBytes_low (q : QType) (hb : q.bits = 2 ∨ q.bits = 4) (rows cols : Nat) (gs : Option Nat) :
    frozenPayloadBytes q rows cols gs =
      match gs with
      | none => ceilDiv (rows * q.bits) 8 * cols
      | some g => ceilDiv (rows * cols / g * q.bits) 8 * g := by
  unfold frozenPayloadBytes ceilDiv
  rcases hb with h | h <;> rw [h] <;> cases gs <;> rfl

theorem frozenScaleCount_low (q : QType) (hb : q.bits = 2 ∨ q.bits = 4) (rows cols : Nat) (gs : Option Nat) :
    frozenScaleCount q rows cols gs =
      match gs with
      | none => rows
      | some g => rows * cols / g := by
  unfold frozenScaleCount
  rcases hb with h | h <;> rw [h] <;> cases gs <;> rfl

/-- the grouped view of a `[rows, cols]` weight along axis 0 -/
theorem groupShape_matrix (rows cols g : Nat) (hr : 0 < rows) (hc : 0 < cols) (hg : 0 < g) (hd : g ∣ cols) :
    groupShape [rows, cols] true g = some [rows * cols / g, g] := by
  have hq : prod [rows, cols] / rows = cols := by
    simp only [prod, Nat.mul_one]; exact Nat.mul_div_cancel_left cols hr
  have hle : g ≤ cols := Nat.le_of_dvd hc hd
  have hmod : cols % g = 0 := Nat.mod_eq_zero_of_dvd hd
  unfold groupShape
  simp only [if_true, List.headD_cons, hq]
  rw [if_neg (by omega), if_neg (by omega), if_neg (by omega)]
  simp [prod]

end C09
end Quanto

-- every property module (and through them every helper file) is part of the default build
import Proofs.Properties.C01
import Proofs.Properties.C02
import Proofs.Properties.C03
import Proofs.Properties.C04
import Proofs.Properties.C05
import Proofs.Properties.C06
import Proofs.Properties.C07
import Proofs.Properties.C08
import Proofs.Properties.C09
import Proofs.Properties.C10
import Proofs.Properties.C11
import Proofs.Properties.C12
import Proofs.Properties.C13
import Proofs.Properties.C14
import Proofs.Properties.C15
import Proofs.Properties.C16
